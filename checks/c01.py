"""C01 - engine verdict equals rule-by-rule evaluation of the loaded list."""
from lib import vlib
from checks import netcommon


def run(tier, seed):
    v = vlib.Verdict("C01", tier, seed)
    wd = vlib.workdir("C01")
    vlib.build_harness()
    k = 2 if tier == "quick" else 3
    r, rep = netcommon.mc_and_replay(v, wd, "c01", k, tier == "thorough", workers=12 if tier == "quick" else 15)
    vlib.require(rep["nontrivial"] > 100, "replay too small")
    r2, rep2 = netcommon.mc_and_replay(v, wd, "c01d", 3 if tier == "quick" else 4, False, workers=12)
    vlib.require(rep2["nontrivial"] > 50, "replay c01d too small")
    nl, rq = (8, 60) if tier == "quick" else (80, 80)
    netcommon.corpus_stage(v, wd, seed, nl, rq)
    netcommon.random_lists(v, wd, seed + 0, 300 if tier == "quick" else 3000)
    # the less travelled paths: rules added one at a time (add_filter histories) and engines loaded from images
    from checks import enginecommon
    enginecommon.histories(v, wd, "blocker", 3 if tier == "quick" else 4)
    netcommon.mc_and_replay(v, wd, "randr", 300 if tier == "quick" else 3000, False, workers=12, extra=["-seed", str(seed + 3000)])
    # the index against every small pattern: one-rule engines vs the rule's own matcher, and Tokens!IndexComplete in TLC
    netcommon.index_on_pattern_universe(v, wd, 3 if tier == "quick" else 4, workers=8 if tier == "quick" else 14)
    vlib.scale_stage(v, wd, "C01")
    return v.finish("model_checking", "lists of <= %d rules" % k, exhaustive=True)


def replay(path):
    print(open(path).read())
    return 0
