"""C02 - a rule's pattern matches a URL exactly when ABP pattern semantics say so.
M1: TLC enumerates every pattern of the bounded universe (one state per pattern), checks the
    code-shaped matcher model (Pattern!ImplMatch) against the three-valued Ideal outside the named
    deviations.
M2: every exported pattern x URL pair is executed on NetworkFilter::parse + matches (decides).
M3: seeded random patterns/URLs recorded from the real matcher, validated by Trace_C02.tla."""
import os, json
from lib import vlib
from checks import netcommon

CFG = """INIT Init
NEXT Next
CONSTANTS
  MaxLen = %d
  Sigma = {%s}
  Export = %s
  DevFirstTokenNotWhole = %s
  DevLastTokenIsFirst = %s
  DevUrlStarIsWildcard = FALSE
INVARIANTS Refines TokensSafe Exported
CHECK_DEADLOCK FALSE
"""


def run(tier, seed):
    v = vlib.Verdict("C02", tier, seed)
    wd = vlib.workdir("C02")
    vlib.build_harness()
    sigma = ['"a"', '"b"', '"."', '"/"', '"^"', '"*"']
    maxlen = 3 if tier == "quick" else 4
    r = vlib.run_tlc("MC_C02", CFG % (maxlen, ", ".join(sigma), "TRUE", "FALSE", "FALSE"), wd, "mc", workers=8 if tier == "quick" else 14,
                     timeout=3000)
    if r["error"]:
        # the design itself (Impl layer vs Ideal) broke: that is a spec-level failure, not a code verdict
        raise vlib.ToolError("M1 failed: " + r["error"][:2000])
    v.add_tlc(r)
    cases = os.path.join(wd, "cases.jsonl")
    vlib.write_jsonl(cases, r["exports"])
    vlib.require(len(r["exports"]) > 100, "too few exported patterns")
    rep_path = os.path.join(wd, "report.json")
    vlib.run_harness(["replay", cases, rep_path])
    rep = vlib.load_report(rep_path)
    vlib.require(rep["evaluations"] > 1000 and rep["nontrivial"] > 50, "M2 replay too small")
    v.add_report(rep, "M2:MC_C02", traces=len(r["exports"]) - 1)
    # second alphabet: regex metacharacters as literal pattern text
    sigma2 = ['"a"', '"+"', '"("', '"."', '"/"', '"^"']
    r2 = vlib.run_tlc("MC_C02", CFG % (maxlen, ", ".join(sigma2), "TRUE", "FALSE", "FALSE"), wd, "mc_meta", workers=8 if tier == "quick" else 14, timeout=3000)
    if r2["error"]:
        raise vlib.ToolError("M1 (metacharacter alphabet) failed: " + r2["error"][:2000])
    v.add_tlc(r2)
    cases2 = os.path.join(wd, "cases_meta.jsonl")
    vlib.write_jsonl(cases2, r2["exports"])
    rep2_path = os.path.join(wd, "report_meta.json")
    vlib.run_harness(["replay", cases2, rep2_path])
    rep2 = vlib.load_report(rep2_path)
    vlib.require(rep2["evaluations"] > 1000 and rep2["nontrivial"] > 20, "M2 replay (metacharacter alphabet) too small")
    v.add_report(rep2, "M2:MC_C02/meta", traces=len(r2["exports"]) - 1)

    # M3: random patterns beyond the bounded alphabet/length
    n = 6000 if tier == "quick" else 40000
    chunks = 1 if tier == "quick" else 8
    for c in range(chunks):
        tr = os.path.join(wd, "trace%d.ndjson" % c)
        out = vlib.run_harness(["record", "c02", tr, str(seed * 1000 + c), str(n // chunks)])
        summ = json.loads(out)
        tr_r, done, mism = vlib.trace_validate("Trace_C02", tr, wd, "trace%d" % c)
        vlib.require(done["n"] == summ["events"], "trace length mismatch")
        v.add_tlc(tr_r)
        v.add_report({"evaluations": summ["events"], "nontrivial": summ["nontrivial"], "samples": summ["samples"],
                      "mismatches": mism, "counters": summ.get("counters", {})}, "M3:Trace_C02", traces=1)
    # engine-level, at scale: the regex translation inside fused regex sets and large buckets (Trace_C01)
    netcommon.corpus_stage(v, wd, seed, 6 if tier == "quick" else 60, 40)
    v.assumptions += [
        "hosts are lower-case ASCII; URLs are built as scheme://[userinfo@]host[:port]path and the host range is known by construction (C12 checks the parser separately)",
        "'||host|' with nothing after the host part is left unspecified (adjudication in DESIGN.md)",
        "full-regex rules (/re/) are outside the specification's pattern language; see C02 level_note",
    ]
    # the less travelled paths: rules added one at a time (add_filter histories) and engines loaded from images
    from checks import enginecommon
    enginecommon.histories(v, wd, "blocker", 3 if tier == "quick" else 4)
    netcommon.mc_and_replay(v, wd, "randr", 300 if tier == "quick" else 3000, False, workers=12, extra=["-seed", str(seed + 3000)])
    # patterns inside fused rules (regex sets) and one pattern text under different anchorings in one engine
    netcommon.mc_and_replay(v, wd, "c05", 2, False)
    vlib.scale_stage(v, wd, "C02")
    return v.finish("model_checking",
                    "M1/M2: all pattern bodies of length 1..%d over {a,b,.,/,^,*} and over {a,+,(,.,/,^} x 3 left anchors x 2 right anchors x 30 URLs whose hosts repeat the anchor text; a pattern is non-trivial if it matches at least one URL of the universe. M3: seeded random patterns (len<=14, wider alphabet) x random URLs validated by TLC against the same Ideal operator" % maxlen,
                    exhaustive=True)


def replay(path):
    with open(path) as f:
        d = json.load(f)
    print(json.dumps(d, indent=1))
    return 0
