"""C03 - rule options restrict matching exactly as the option semantics specify."""
from lib import vlib
from checks import netcommon


def run(tier, seed):
    v = vlib.Verdict("C03", tier, seed)
    wd = vlib.workdir("C03")
    vlib.build_harness()
    r, rep = netcommon.mc_and_replay(v, wd, "c03", 1, tier == "thorough", workers=15)
    vlib.require(rep["evaluations"] > 100000 and rep["nontrivial"] > 500, "C03 replay too small")
    # the same options on engines loaded from serialized data (random lists, each also run after a reload)
    _, rep_rr = netcommon.mc_and_replay(v, wd, "randr", 300 if tier == "quick" else 3000, False, workers=12, extra=["-seed", str(seed + 3000)])
    # options of rules added one at a time (Blocker::add_filter histories, incl. a token-less rule with two $domain= values)
    from checks import enginecommon
    enginecommon.histories(v, wd, "blocker", 3 if tier == "quick" else 4)
    # ... and to a blocker whose initial list has no $domain= rule at all
    enginecommon.histories(v, wd, "blocker", 3 if tier == "quick" else 4, initset="notagblock")
    # "requests with unsupported schemes are never matched" on the other entry point (check_network_request_subset under
    # every flag combination): one-rule lists of the c01 pool against its ftp / wss requests
    netcommon.mc_and_replay(v, wd, "c01", 1, False, workers=8)
    # the text side: option spellings -> rule AST (Options.tla)
    rep_o = netcommon.option_spellings(v, wd, 2 if tier == "quick" else 3)
    vlib.require(rep_o["nontrivial"] > 300, "option-spelling replay too small")
    v.assumptions += [
        "tag combined with redirect / removeparam is documented as unsupported and excluded from the option-spelling universe",
        "third-party is computed in the spec with single-label public suffixes (com); C12 checks the real resolver",
        "a $domain= rule against a request without source hostname is left unspecified (the statement is silent)",
        "match-case needs a full-regex rule, which is outside the spec's pattern language: not covered",
    ]
    nl, rq = (6, 40) if tier == "quick" else (80, 80)
    netcommon.corpus_stage(v, wd, seed, nl, rq)
    vlib.scale_stage(v, wd, "C03")
    return v.finish("model_checking",
                    "every rule of {7 rule shapes} x {type-option sets} x {any,3p,1p} x {4 domain-list variants} as a single-rule "
                    "engine (optimised and not) and through NetworkMatchable::matches, against every request of "
                    "{aliases} x {https,http,ws,wss,ftp} x {7 source relations}; a case is non-trivial if some request "
                    "is blocked/excepted/rewritten", exhaustive=True)


def replay(path):
    print(open(path).read())
    return 0
