"""C04 - exception / important / badfilter precedence; rule addition is monotone."""
from lib import vlib
from checks import netcommon


def run(tier, seed):
    v = vlib.Verdict("C04", tier, seed)
    wd = vlib.workdir("C04")
    vlib.build_harness()
    k = 2 if tier == "quick" else 3
    _, rep1 = netcommon.mc_and_replay(v, wd, "c01", k, False, workers=12 if tier == "quick" else 15)
    _, rep2 = netcommon.mc_and_replay(v, wd, "c04b", 2 if tier == "quick" else 3, False)
    _, rep3 = netcommon.mc_and_replay(v, wd, "c01d", 3, False)
    # many badfilter rules at once: seven rules followed by every subset of their seven twins
    netcommon.mc_and_replay(v, wd, "c04m", 7, False, workers=8)
    # match-all rules fused with patterned siblings (optimised engines must stay monotone), and rule addition
    # through Blocker::add_filter (histories: the rule added one at a time must have the effect it has in a batch)
    _, rep4 = netcommon.mc_and_replay(v, wd, "c05", 2, False)
    from checks import enginecommon
    _, rep5, _ = enginecommon.histories(v, wd, "blocker", 3 if tier == "quick" else 4)
    vlib.require(rep1["nontrivial"] > 100 and rep2["nontrivial"] > 50 and rep5["nontrivial"] > 30, "replay too small")
    v.assumptions += ["tag differences between a rule and its badfilter twin are outside the domain (as the property states)",
                      "monotonicity is checked relationally on real engines (engine(L) vs engine(L+x)) for every rule x of every exported list, and on the Ideal by TLC for every resolution of unspecified hits"]
    nl, rq = (6, 40) if tier == "quick" else (80, 80)
    netcommon.corpus_stage(v, wd, seed, nl, rq)
    netcommon.random_lists(v, wd, seed + 1000, 300 if tier == "quick" else 3000)
    vlib.scale_stage(v, wd, "C04")
    return v.finish("model_checking",
                    "precedence + monotonicity: all lists of <= %d rules from the 37-rule c01 pool (token-boundary cases, exceptions, "
                    "important, tags, domains, badfilter twins) and the c01d pool x tag sets x requests; badfilter: all pairs%s from 13 base "
                    "rules and 25 badfilter twins / near-twins differing in exactly one option or pattern character; seven rules followed by every "
                    "subset of their seven badfilter twins" % (k, "" if tier == "quick" else "/triples"),
                    exhaustive=True)


def replay(path):
    print(open(path).read())
    return 0
