"""C05 - rule optimisation never changes any verdict."""
from lib import vlib
from checks import netcommon, enginecommon


def run(tier, seed):
    v = vlib.Verdict("C05", tier, seed)
    wd = vlib.workdir("C05")
    vlib.build_harness()
    k = 3 if tier == "quick" else 4
    # every net case is executed on an optimised AND an unoptimised engine; both must give an Ideal verdict
    _, rep1 = netcommon.mc_and_replay(v, wd, "c05", k, False, workers=12 if tier == "quick" else 15)
    if rep1.get("counters", {}).get("fused_rule_observed", 0) <= 100:
        # the verdict clauses do not depend on it: an engine that fuses nothing satisfies C05 trivially
        print("NOTE: almost no fused rules visible in the debug text of the optimised engine: the comparison with spec/Optimizer.tla's "
              "fuse groups was not exercised (the verdict clauses of C05 were)")
        v.notes.append("fuse-group comparison not exercised")
    netcommon.optimizer_selftest(v, wd)
    _, rep2 = netcommon.mc_and_replay(v, wd, "c01d", 3 if tier == "quick" else 4, False)
    # explicit optimise on a live engine, inside histories (Blocker::optimize)
    _, rep3, _ = enginecommon.histories(v, wd, "blocker", 4)
    if tier == "thorough":
        enginecommon.histories(v, wd, "blocker", 5, ops="all5")
    runs, nops = (2, 600) if tier == "quick" else (8, 3000)
    enginecommon.longhist_stage(v, wd, seed, "blocker", runs, nops)
    vlib.require(rep1["nontrivial"] > 100 and rep3["nontrivial"] > 50, "replay too small")
    v.assumptions += ["equivalence is established through the Ideal: both engines must return an allowed verdict for every request; "
                      "where the Ideal allows several verdicts (ties, unspecified hits) the two engines are additionally not compared with each other"]
    nl, rq = (8, 60) if tier == "quick" else (80, 80)
    netcommon.corpus_stage(v, wd, seed, nl, rq)
    vlib.scale_stage(v, wd, "C05")
    return v.finish("model_checking",
                    "all lists of <= %d rules from 23 same-bucket near-twins differing in exactly one of {exception, important, tag, regex-ness, "
                    "anchors, type, party, domain, hostname anchor, redirect, removeparam} x tag sets x 7 requests, each on engines built with "
                    "optimisation on and off; the domain-dispatch pool (shared rules across buckets); and every history of 4-5 operations that "
                    "includes Blocker::optimize on a live engine; the fuse groups spec/Optimizer.tla computes (category lists, histogram bucket choice, "
                    "grouping key) are compared with the groups visible in the debug text of the optimised engine (drift, not violation), and TLC checks "
                    "FuseSound on every list" % k, exhaustive=True)


def replay(path):
    print(open(path).read())
    return 0
