"""C06 - answers depend only on current rules, tags and resources, not on history."""
from lib import vlib
from checks import enginecommon


def run(tier, seed):
    v = vlib.Verdict("C06", tier, seed)
    wd = vlib.workdir("C06")
    vlib.build_harness()
    d = 4 if tier == "quick" else 5
    _, rep_b, nb = enginecommon.histories(v, wd, "blocker", 4)
    if tier == "thorough":
        # one operation deeper with three of the addable rules (the full set of addable rules at depth 5 is out of reach)
        enginecommon.histories(v, wd, "blocker", 5, ops="all5")
    _, rep_e, ne = enginecommon.histories(v, wd, "engine", d)
    _, rep_n, nn = enginecommon.histories(v, wd, "engine", d, initset="notagblock")
    # deeper histories over tag assignment / discard / query only: free-then-reallocate sequences
    _, rep_t, nt = enginecommon.histories(v, wd, "blocker", 5 if tier == "quick" else 7, ops="tags")
    # resource loading as part of the history: use_resources / add_resource (incl. name/alias collisions whose
    # outcome depends on the order of loading) interleaved with save / load / discard / query
    _, rep_r, nr = enginecommon.histories(v, wd, "engine", 4 if tier == "quick" else 5, initset="res", ops="res")
    vlib.require(rep_r["nontrivial"] > 50, "resource histories too small")
    enginecommon.any_alloc(v, wd, "blocker", 3 if tier == "quick" else 4)
    if tier == "thorough":
        enginecommon.dev_selftest(v, wd)
    runs, nops = (2, 800) if tier == "quick" else (10, 3000)
    enginecommon.longhist_stage(v, wd, seed, "blocker", runs, nops)
    enginecommon.longhist_stage(v, wd, seed, "engine", runs, nops)
    enginecommon.regexcache_stage(v, wd, seed, tier)
    vlib.require(rep_b["nontrivial"] > 50 and rep_e["nontrivial"] > 50, "history replay too small")
    v.assumptions += [
        "in the history stages time is modelled by explicit discards (discard_regex on every entry) and by an aggressive discard policy (1ns/0); the RegexCache stage runs with real sleeps (2 ms ticks) and validates the recorded clock readings and debug reports against spec/RegexCache.tla with interval time (uncertain comparisons allow both outcomes, so machine load cannot cause an alarm)",
        "the allocator is nondeterministic in the model; on the real code the harness's global allocator hands a freed block of the size of a shared rule to the next request of that size (last in, first out), which is the resolution under which a cache entry that outlives its rule is always met again",
        "add_filter / optimize are Blocker-level (Engine exposes no rule mutation); serialize/deserialize are Engine-level; removeparam rules are kept out of the serialized pool (open finding wireDropsRemoveparam, C08)",
    ]
    vlib.scale_stage(v, wd, "C06")
    return v.finish("model_checking",
                    "every history of %d operations over {use/enable/disable tags, add_filter, optimize, discard all regexes, "
                    "serialize, deserialize, query battery} from a 7-rule engine with tagged regex rules, ending in a query; "
                    "replayed on one long-lived Blocker/Engine under 3 configurations (optimise off/on, aggressive discard policy); "
                    "each query step compares 9 requests (verdict + csp) and the enabled tag set with the Ideal for the current (rules, tags)" % d,
                    exhaustive=True)


def replay(path):
    print(open(path).read())
    return 0
