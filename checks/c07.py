"""C07 - tagged rules are active exactly when their tag is enabled."""
from lib import vlib
from checks import enginecommon, netcommon


def run(tier, seed):
    v = vlib.Verdict("C07", tier, seed)
    wd = vlib.workdir("C07")
    vlib.build_harness()
    # static view: every category x tag, all enabled-tag subsets (Active(rule) == tag in set)
    _, rep_s = netcommon.mc_and_replay(v, wd, "c07", 2 if tier == "quick" else 3, False)
    vlib.require(rep_s["nontrivial"] > 50, "c07 universe replay too small")
    # histories: tag algebra (use/enable/disable), deserialize keeps the caller's set
    d = 4 if tier == "quick" else 5
    _, rep_e, _ = enginecommon.histories(v, wd, "engine", d)
    _, rep_n, _ = enginecommon.histories(v, wd, "engine", d, initset="notagblock")
    _, rep_b, _ = enginecommon.histories(v, wd, "blocker", 4 if tier == "thorough" else 3)
    if tier == "thorough":
        enginecommon.histories(v, wd, "blocker", 5, ops="all5")
    runs, nops = (1, 800) if tier == "quick" else (6, 3000)
    enginecommon.longhist_stage(v, wd, seed, "engine", runs, nops)
    enginecommon.longhist_stage(v, wd, seed, "blocker", runs, nops)
    vlib.require(rep_e["nontrivial"] > 50 and rep_n["nontrivial"] > 20, "history replay too small")
    v.assumptions += ["tag + redirect / tag + removeparam are documented as unsupported and are outside the universes",
                      "tag_exists is probed for the tag names of the universe (t1,t2) plus one unused name"]
    netcommon.random_lists(v, wd, seed + 2000, 300 if tier == "quick" else 3000)
    vlib.scale_stage(v, wd, "C07")
    return v.finish("model_checking",
                    "static: all lists of <= %d rules from {block, exception, important, csp, csp-exception} x {untagged,t1,t2} plus fusable "
                    "near-twins, under every enabled-tag subset; histories: every sequence of %d operations over use/enable/disable/"
                    "serialize/deserialize/discard/query (engine) and add_filter/optimize (blocker), checking the enabled set after every "
                    "operation and the whole battery at every query" % (2 if tier == "quick" else 3, d), exhaustive=True)


def replay(path):
    print(open(path).read())
    return 0
