"""C08 - a deserialized engine behaves identically to the engine that was serialized."""
from lib import vlib
from checks import netcommon, coscommon, enginecommon


def run(tier, seed):
    v = vlib.Verdict("C08", tier, seed)
    wd = vlib.workdir("C08")
    vlib.build_harness()
    k = 2 if tier == "quick" else 3
    _, rep = netcommon.mc_and_replay(v, wd, "c08", k, False, workers=12 if tier == "quick" else 15)
    vlib.require(rep["nontrivial"] > 100, "replay too small")
    # the cosmetic half of the image: every cosmetic case is also executed on a reloaded engine
    _, repc = coscommon.mc_and_replay(v, wd, "c16", 2 if tier == "quick" else 3)
    _, reps = coscommon.mc_and_replay(v, wd, "c18", 1 if tier == "quick" else 2)
    _, repk = coscommon.mc_and_replay(v, wd, "c17b", 3)
    # random lists (TLC Randomization): network lists each also run on a reloaded engine; cosmetic lists likewise
    nr = 300 if tier == "quick" else 3000
    _, repr_ = netcommon.mc_and_replay(v, wd, "randr", nr, False, workers=12, extra=["-seed", str(seed + 3000)])
    vlib.require(repr_["evaluations"] > 20 * nr, "random reload universe too small")
    _, repcr = coscommon.mc_and_replay(v, wd, "rand", nr, workers=12, extra=["-seed", str(seed)])
    runs, nops = (2, 800) if tier == "quick" else (8, 3000)
    enginecommon.longhist_stage(v, wd, seed, "engine", runs, nops)
    v.assumptions += ["the reloaded engine gets the caller's tags before loading and the same resources after it",
                      "equality is checked both against the Ideal (both engines must give an allowed answer) and literally (reloaded == original)"]
    vlib.scale_stage(v, wd, "C08")
    return v.finish("model_checking",
                    "network: all lists of <= %d rules from 29 rules (one per rule shape) x tag sets x 8 requests, on the original engine and on an engine "
                    "loaded from its image; cosmetic: the c16 (scoping), c18 (scriptlets/permissions) and c17b (class/id buckets) universes, every case "
                    "also executed after a serialize/deserialize round trip; plus 300 (quick) / 3000 random network lists and as many random cosmetic lists, "
                    "each also executed on a reloaded engine" % k, exhaustive=True)


def replay(path):
    print(open(path).read())
    return 0
