"""C08 - a deserialized engine behaves identically to the engine that was serialized."""
from lib import vlib
from checks import netcommon


def run(tier, seed):
    v = vlib.Verdict("C08", tier, seed)
    wd = vlib.workdir("C08")
    vlib.build_harness()
    k = 2 if tier == "quick" else 3
    _, rep = netcommon.mc_and_replay(v, wd, "c08", k, False, workers=12 if tier == "quick" else 15)
    vlib.require(rep["nontrivial"] > 100, "replay too small")
    return v.finish("model_checking", "lists of <= %d rules from one rule per shape" % k, exhaustive=True)


def replay(path):
    print(open(path).read())
    return 0
