"""C08 - a deserialized engine behaves identically to the engine that was serialized."""
from lib import vlib
from checks import netcommon, coscommon, enginecommon


def run(tier, seed):
    v = vlib.Verdict("C08", tier, seed)
    wd = vlib.workdir("C08")
    vlib.build_harness()
    k = 2 if tier == "quick" else 3
    _, rep = netcommon.mc_and_replay(v, wd, "c08", k, False, workers=12 if tier == "quick" else 15)
    vlib.require(rep["nontrivial"] > 100, "replay too small")
    # the cosmetic half of the image: every cosmetic case is also executed on a reloaded engine
    _, repc = coscommon.mc_and_replay(v, wd, "c16", 2 if tier == "quick" else 3)
    _, reps = coscommon.mc_and_replay(v, wd, "c18", 1 if tier == "quick" else 2)
    _, repk = coscommon.mc_and_replay(v, wd, "c17b", 3)
    runs, nops = (2, 800) if tier == "quick" else (8, 3000)
    enginecommon.longhist_stage(v, wd, seed, "engine", runs, nops)
    v.assumptions += ["the reloaded engine gets the caller's tags before loading and the same resources after it",
                      "equality is checked both against the Ideal (both engines must give an allowed answer) and literally (reloaded == original)"]
    return v.finish("model_checking",
                    "network: all lists of <= %d rules from 29 rules (one per rule shape) x tag sets x 8 requests, on the original engine and on an engine "
                    "loaded from its image; cosmetic: the c16 (scoping), c18 (scriptlets/permissions) and c17b (class/id buckets) universes, every case "
                    "also executed after a serialize/deserialize round trip" % k, exhaustive=True)


def replay(path):
    print(open(path).read())
    return 0
