"""C09 - serialization is deterministic and a fixpoint under reload."""
import os, json
from lib import vlib

MC = """INIT Init
NEXT Next
CONSTANTS
  Containers = {"filter_map", "bucket_vec", "hostname_db"}
  Keys = {1, 2, 3}
  Raw = %s
INVARIANTS Deterministic
PROPERTIES Fixpoint
CHECK_DEADLOCK FALSE
"""


def run(tier, seed):
    v = vlib.Verdict("C09", tier, seed)
    wd = vlib.workdir("C09")
    vlib.build_harness()
    r = vlib.run_tlc("MC_Wire", MC % "{}", wd, "mc", workers=4, timeout=300)
    if r["error"]:
        raise vlib.ToolError("M1 failed: " + r["error"][:1500])
    v.add_tlc(r)
    r2 = vlib.run_tlc("MC_Wire", MC % '{"bucket_vec"}', wd, "mc_dev", workers=4, timeout=300)
    vlib.require(r2["error"] and "Deterministic" in r2["error"], "Wire spec lost its sensitivity to a raw-iteration container")
    tr = os.path.join(wd, "trace.ndjson")
    nlists, children = (6, 3) if tier == "quick" else (160, 24)
    out = vlib.run_harness(["record", "c09", tr, str(seed), str(nlists), str(children), wd], timeout=3000)
    summ = json.loads(out)
    rt, done, mism = vlib.trace_validate("Trace_C09", tr, wd, "trace")
    vlib.require(done["n"] == summ["events"], "trace length mismatch")
    v.add_tlc(rt)
    v.add_report({"evaluations": summ["events"], "nontrivial": summ["nontrivial"], "samples": summ["samples"], "mismatches": mism,
                  "counters": summ.get("counters", {})},
                 "M3:Trace_C09", traces=1)
    v.assumptions += ["bytes are opaque to the specification: images are compared through a 64-bit FNV digest + length",
                      "hash-seed variation comes from fresh std RandomState maps in-process and from child processes"]
    return v.finish("model_checking",
                    "%d rule lists (synthetic lists of 180-430 rules built to put many unfusable same-token rules, fusable groups, tokenless multi-domain "
                    "rules and every cosmetic kind into every container; random 1500-line samples of easylist.txt and uBO filters.txt) x 3 (debug, optimise) "
                    "configurations, plus 25x as many sparse lists (1-6 rules of 1-3 of 26 rule kinds, so that most containers of the image are empty, in-process only); each serialized by 3 fresh in-process builds, %d child processes and after 1 and 2 reloads; distinct_nontrivial = "
                    "distinct images produced" % (nlists, children), exhaustive=False)


def replay(path):
    print(open(path).read())
    return 0
