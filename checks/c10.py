"""C10 - loading corrupt or hostile serialized data fails cleanly and atomically."""
import os, json
from lib import vlib

MC = """INIT Init
NEXT Next
CONSTANTS
  Images = {"A", "B", "C"}
  DevCommitEarly = %s
INVARIANTS ErrorIsAtomic
PROPERTIES Atomic TagsSurviveLoads
CHECK_DEADLOCK FALSE
"""
TR = """INIT Init2
NEXT Next2
CONSTANTS
  Images = {"A", "B", "C"}
  DevCommitEarly = FALSE
POSTCONDITION Done
CHECK_DEADLOCK FALSE
"""


def run(tier, seed):
    v = vlib.Verdict("C10", tier, seed)
    wd = vlib.workdir("C10")
    vlib.build_harness()
    r = vlib.run_tlc("MC_Load", MC % "FALSE", wd, "mc", workers=4, timeout=600)
    if r["error"]:
        raise vlib.ToolError("M1 failed: " + r["error"][:1500])
    v.add_tlc(r)
    r2 = vlib.run_tlc("MC_Load", MC % "TRUE", wd, "mc_dev", workers=4, timeout=600)
    vlib.require(r2["error"] and "ErrorIsAtomic" in r2["error"], "Load spec lost its sensitivity to a non-atomic commit")
    tr = os.path.join(wd, "trace.ndjson")
    cur = tr + ".current"
    if os.path.exists(cur):
        os.remove(cur)
    try:
        out = vlib.run_harness(["record", "c10", tr, str(seed), "2" if tier == "thorough" else "1"], timeout=3000)
    except vlib.ToolError as e:
        # the recorder died.  If it died while loading one particular input (the marker file names it), the load
        # aborted the process - "without panicking, aborting or allocating unboundedly" is violated by that input
        if os.path.exists(cur) and "timed out" not in str(e):
            fault = json.load(open(cur))
            v.add_report({"evaluations": 1, "nontrivial": 1, "samples": [],
                          "mismatches": [{"what": "load-aborted-the-process", "event": fault, "observed": "process aborted (allocation failure or stack overflow) while loading this input",
                                          "allowed": ["ok", "err"], "devs": []}]}, "M3:record-c10", traces=1)
            return v.finish("fault_enumeration", "fault enumeration aborted by the input named in the violation", exhaustive=False)
        raise
    summ = json.loads(out)
    cfg = os.path.join(wd, "trace.cfg")
    rt = vlib.run_tlc("Trace_C10", TR, wd, "trace", workers=1, timeout=3000, env={"TRACE": tr}, heap="8g", deque=True)
    if rt["error"]:
        raise vlib.ToolError("trace validation failed in TLC: " + rt["error"][:1500])
    done = [e for e in rt["exports"] if e.get("ev") == "DONE"]
    vlib.require(len(done) == 1 and done[0]["n"] == summ["events"], "trace not fully consumed")
    mism = [e for e in rt["exports"] if e.get("ev") == "MISMATCH"]
    v.add_tlc(rt)
    v.add_report({"evaluations": summ["counters"]["faults"], "nontrivial": summ["nontrivial"], "samples": summ["samples"],
                  "mismatches": mism, "counters": summ["counters"]}, "M3:Trace_C10", traces=1)
    if summ["counters"]["accepted_by_loader"] <= 100:
        # a loader that rejects (almost) every corrupted input satisfies C10 a fortiori; only the clause
        # 'an accepted corrupt image never panics later' was then not exercised
        print("NOTE: almost no corrupted input was accepted by the loader: the post-load battery ran on valid images only")
        v.notes.append("accepted-corrupt-image clause not exercised")
    v.assumptions += ["allocation bound: peak heap growth during deserialize <= 64 MiB + 4 KiB per input byte, measured by a counting global allocator in the harness",
                      "after an accepted corrupt load only absence of panics is required (the property allows any answers)",
                      "an abort of the recorder process during a load (allocation failure, stack overflow) is reported as a violation naming the input; a recorder that times out is a tool error"]
    vlib.scale_stage(v, wd, "C10")
    return v.finish("fault_enumeration",
                    "two valid images (a 15-rule engine with every list/category and cosmetic kind; a 4-rule engine): every prefix, every single-bit flip "
                    "(quick: every 3rd byte of the second image), 18 byte substitutions at every structural offset (bytes >= 0x80) and at sampled others, "
                    "seeded multi-byte corruptions with truncation, header variants (empty, magic only, magic+version, wrong versions, gzip), seeded arbitrary "
                    "byte strings with and without a valid header; all loaded in sequence into ONE long-lived engine with enabled tags, each followed by a "
                    "13-query battery (network, csp, cosmetic, class/id, tag_exists) and a re-serialization, valid loads interleaved; a fault is one case",
                    exhaustive=False)


def replay(path):
    print(open(path).read())
    return 0
