"""C11 - list parsing is total, line-independent, and format / rule-type options hold."""
import os, json
from lib import vlib

CFG = """INIT Init
NEXT Next
CONSTANTS
  K = %d
INVARIANTS Independent Exported
CHECK_DEADLOCK FALSE
"""


def run(tier, seed):
    v = vlib.Verdict("C11", tier, seed)
    wd = vlib.workdir("C11")
    vlib.build_harness()
    k = 2 if tier == "quick" else 3
    r = vlib.run_tlc("MC_Lists", CFG % k, wd, "mc", workers=12, timeout=1500, heap="12g")
    if r["error"]:
        raise vlib.ToolError("M1 failed: " + r["error"][:1500])
    v.add_tlc(r)
    cases = os.path.join(wd, "cases.jsonl")
    vlib.write_jsonl(cases, r["exports"])
    vlib.require(len(r["exports"]) > 500, "too few list cases")
    rep_path = os.path.join(wd, "report.json")
    vlib.run_harness(["replay", cases, rep_path], timeout=3000)
    rep = vlib.load_report(rep_path)
    v.add_report(rep, "M2:MC_Lists", traces=len(r["exports"]))
    # which parser a line is handed to under each rule-type option (lexical classifier, byte-exact)
    cfg2 = "INIT Init\nNEXT Next\nCONSTANTS\n  N = %d\nINVARIANTS Monotone Exported\nCHECK_DEADLOCK FALSE\n" % (5 if tier == "quick" else 6)
    rc = vlib.run_tlc("MC_Classify", cfg2, wd, "mc_classify", workers=12, timeout=1800, heap="12g")
    if rc["error"]:
        raise vlib.ToolError("MC_Classify failed: " + rc["error"][:1500])
    v.add_tlc(rc)
    vlib.require(len(rc["exports"]) > 100000, "too few classified lines")
    ccases = os.path.join(wd, "cases_classify.jsonl")
    vlib.write_jsonl(ccases, rc["exports"])
    crep_path = os.path.join(wd, "report_classify.json")
    vlib.run_harness(["replay", ccases, crep_path], timeout=3000)
    crep = vlib.load_report(crep_path)
    v.add_report(crep, "M2:MC_Classify", traces=len(rc["exports"]))
    tr = os.path.join(wd, "trace.ndjson")
    summ = json.loads(vlib.run_harness(["record", "c11", tr, str(seed), "12000" if tier == "quick" else "150000"], timeout=3000))
    rt, done, mism = vlib.trace_validate("Trace_C11", tr, wd, "trace")
    vlib.require(done["n"] == summ["events"], "trace length mismatch")
    v.add_tlc(rt)
    v.add_report({"evaluations": summ["events"], "nontrivial": summ["nontrivial"], "samples": summ["samples"], "mismatches": mism}, "M3:Trace_C11", traces=1)
    vlib.scale_stage(v, wd, "C11")
    return v.finish("model_checking", "lists of lines", exhaustive=False)


def replay(path):
    print(open(path).read())
    return 0
