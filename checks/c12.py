"""C12 - requests are normalised consistently: host, party and scheme classification."""
import os, json
from lib import vlib

CFG = """INIT Init
NEXT Next
CONSTANTS
  Big = %s
INVARIANTS Exported
CHECK_DEADLOCK FALSE
"""


def run(tier, seed):
    v = vlib.Verdict("C12", tier, seed)
    wd = vlib.workdir("C12")
    vlib.build_harness()
    r = vlib.run_tlc("MC_Req", CFG % ("TRUE" if tier == "thorough" else "FALSE"), wd, "mc", workers=12, timeout=1500, heap="12g")
    if r["error"]:
        raise vlib.ToolError("M1 failed: " + r["error"][:1500])
    v.add_tlc(r)
    cases = os.path.join(wd, "cases.jsonl")
    vlib.write_jsonl(cases, r["exports"])
    vlib.require(len(r["exports"]) > 1000, "too few request cases")
    rep_path = os.path.join(wd, "report.json")
    vlib.run_harness(["replay", cases, rep_path], timeout=3000)
    rep = vlib.load_report(rep_path)
    v.add_report(rep, "M2:MC_Req", traces=len(r["exports"]))
    tr = os.path.join(wd, "trace.ndjson")
    summ = json.loads(vlib.run_harness(["record", "c12", tr, str(seed), "20000" if tier == "quick" else "200000"]))
    rt, done, mism = vlib.trace_validate("Trace_C12", tr, wd, "trace")
    vlib.require(done["n"] == summ["events"], "trace length mismatch")
    v.add_tlc(rt)
    v.add_report({"evaluations": summ["events"], "nontrivial": summ["nontrivial"], "samples": summ["samples"], "mismatches": mism}, "M3:Trace_C12", traces=1)
    vlib.scale_stage(v, wd, "C12")
    return v.finish("model_checking", "URL records", exhaustive=True)


def replay(path):
    print(open(path).read())
    return 0
