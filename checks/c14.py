"""C14 - see DESIGN.md section 7."""
from lib import vlib
from checks import netcommon

INFO = {
 "13": ("c13", 3, 3, "sets of <= %d rules from a pool of redirect / redirect-rule / exception / blocking / important rules over resources {r1 (alias al1), r2, missing, template, fn/javascript, permissioned} x priorities {none,0,1,10,-1,malformed} against 3 requests; non-trivial = some request gets a redirect, block or exception"),
 "14": ("c14", 2, 3, "sets of <= %d removeparam / blocking / important / exception rules against 200 URLs = 20 query shapes x 5 fragment shapes x 2 request types; non-trivial = some URL is rewritten or blocked"),
 "15": ("c15", 3, 4, "sets of <= %d csp rules / exceptions / blanket exceptions (domains, tags, duplicates, badfilter) x tag sets against 72 requests = 9 request types x 4 sources x {https,ftp}; non-trivial = some request gets a policy"),
}


def run(tier, seed):
    u, kq, kt, rule = INFO["14"]
    v = vlib.Verdict("C14", tier, seed)
    wd = vlib.workdir("C14")
    vlib.build_harness()
    k = kq if tier == "quick" else kt
    r, rep = netcommon.mc_and_replay(v, wd, u, k, tier == "thorough", workers=12 if tier == "quick" else 15)
    vlib.require(rep["nontrivial"] > 20, "replay too small")
    # removeparam rules on a live blocker: added one at a time, explicit Blocker::optimize (that list is never optimised)
    from checks import enginecommon
    _, reph, _ = enginecommon.histories(v, wd, "blocker", 3 if tier == "quick" else 4)
    vlib.require(reph["nontrivial"] > 30, "history replay too small")
    v.assumptions += ["resources carry their own name as content so that the served data-URL identifies the chosen resource",
                      "third-party computed in the spec with single-label public suffixes"]
    vlib.scale_stage(v, wd, "C14")
    return v.finish("model_checking", rule % k, exhaustive=True)


def replay(path):
    print(open(path).read())
    return 0
