"""C16 - per-site cosmetic resources contain exactly the rules scoped to that host."""
from lib import vlib
from checks import coscommon


def run(tier, seed):
    v = vlib.Verdict("C16", tier, seed)
    wd = vlib.workdir("C16")
    vlib.build_harness()
    k = 2 if tier == "quick" else 3
    _, rep = coscommon.mc_and_replay(v, wd, "c16", k, workers=12 if tier == "quick" else 15)
    vlib.require(rep["nontrivial"] > 100, "replay too small")
    # scriptlets requested by several lists with different permissions, at different levels of the host hierarchy
    coscommon.mc_and_replay(v, wd, "c18", 2, workers=12)
    # the text side: cosmetic lines <locations>#<marker>#<body> -> rule or refusal (CosParse.tla)
    _, rep_p = coscommon.mc_and_replay(v, wd, "parse", 1, workers=8)
    vlib.require(rep_p["evaluations"] > 40000 and rep_p["nontrivial"] > 200, "cosmetic parse universe too small")
    # random lists of 4..12 rules over the whole space of valid cosmetic rules (TLC Randomization, seeded)
    _, rep_r = coscommon.mc_and_replay(v, wd, "rand", 300 if tier == "quick" else 3000, workers=12, extra=["-seed", str(seed)])
    vlib.require(rep_r["evaluations"] > 20000, "random cosmetic universe too small")
    vlib.scale_stage(v, wd, "C16")
    return v.finish("model_checking", "lists of <= %d cosmetic rules from the 40-rule scoping pool x 13 page hosts; plus every cosmetic line of 14 location texts x 11 markers x 20 bodies (3080 lines), parsed by CosParse.tla and replayed as one-line lists" % k, exhaustive=True)


def replay(path):
    print(open(path).read())
    return 0
