"""C17 - per-site cosmetic resources contain exactly the rules scoped to that host."""
from lib import vlib
from checks import coscommon


def run(tier, seed):
    v = vlib.Verdict("C17", tier, seed)
    wd = vlib.workdir("C17")
    vlib.build_harness()
    k = 2 if tier == "quick" else 3
    _, rep = coscommon.mc_and_replay(v, wd, "c17", k, workers=12 if tier == "quick" else 15)
    _, repb = coscommon.mc_and_replay(v, wd, "c17b", 3 if tier == "quick" else 5, workers=12)
    vlib.require(rep["nontrivial"] > 10, "replay too small")
    # random lists of 4..12 rules over the whole space of valid cosmetic rules (TLC Randomization, seeded)
    _, rep_r = coscommon.mc_and_replay(v, wd, "rand", 300 if tier == "quick" else 3000, workers=12, extra=["-seed", str(seed)])
    vlib.require(rep_r["evaluations"] > 20000, "random cosmetic universe too small")
    vlib.scale_stage(v, wd, "C17")
    return v.finish("model_checking", "lists of <= %d cosmetic rules" % k, exhaustive=True)


def replay(path):
    print(open(path).read())
    return 0
