"""C17 - per-site cosmetic resources contain exactly the rules scoped to that host."""
from lib import vlib
from checks import coscommon


def run(tier, seed):
    v = vlib.Verdict("C17", tier, seed)
    wd = vlib.workdir("C17")
    vlib.build_harness()
    k = 2 if tier == "quick" else 3
    _, rep = coscommon.mc_and_replay(v, wd, "c17", k, workers=12 if tier == "quick" else 15)
    _, repb = coscommon.mc_and_replay(v, wd, "c17b", 3 if tier == "quick" else 5, workers=12)
    vlib.require(rep["nontrivial"] > 10, "replay too small")
    return v.finish("model_checking", "lists of <= %d cosmetic rules" % k, exhaustive=True)


def replay(path):
    print(open(path).read())
    return 0
