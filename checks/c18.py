"""C18 - per-site cosmetic resources contain exactly the rules scoped to that host."""
from lib import vlib
from checks import coscommon, netcommon


def run(tier, seed):
    v = vlib.Verdict("C18", tier, seed)
    wd = vlib.workdir("C18")
    vlib.build_harness()
    k = 2 if tier == "quick" else 3
    _, rep = coscommon.mc_and_replay(v, wd, "c18", k, workers=12 if tier == "quick" else 15)
    vlib.require(rep["nontrivial"] > 10, "replay too small")
    # "a resource that requires any permission is never served as a redirect": the redirect universe (single rules)
    netcommon.mc_and_replay(v, wd, "c13", 1, False)
    # the permission gate over the whole 256 x 256 space (MC_Perm), at mask, storage and engine level
    import os, json
    rp = vlib.run_tlc("MC_Perm", "INIT Init\nNEXT Next\nINVARIANTS Monotone Exported\nCHECK_DEADLOCK FALSE\n", wd, "mc_perm", workers=4, timeout=600)
    if rp["error"]:
        raise vlib.ToolError("MC_Perm failed: " + rp["error"][:1500])
    v.add_tlc(rp)
    perm_cases = [e for e in rp["exports"] if isinstance(e, dict) and e.get("k") == "perm"]
    vlib.require(len(perm_cases) == 256, "MC_Perm exported %d rows" % len(perm_cases))
    pc = os.path.join(wd, "cases_perm.jsonl")
    vlib.write_jsonl(pc, perm_cases)
    pr = os.path.join(wd, "report_perm.json")
    vlib.run_harness(["replay", pc, pr], timeout=3000)
    prep = vlib.load_report(pr)
    vlib.require(prep["evaluations"] >= 65536, "permission replay incomplete")
    v.add_report(prep, "M2:MC_Perm", traces=256)
    # M3: argument encoding on random argument lists / spellings (control characters, quotes, backslashes, U+2028, $-sequences)
    tr = os.path.join(wd, "trace.ndjson")
    summ = json.loads(vlib.run_harness(["record", "c18", tr, str(seed), "2500" if tier == "quick" else "20000"]))
    rt, done, mism = vlib.trace_validate("Trace_C18", tr, wd, "trace")
    vlib.require(done["n"] == summ["events"], "trace length mismatch")
    v.add_tlc(rt)
    v.add_report({"evaluations": summ["events"], "nontrivial": summ["nontrivial"], "samples": summ["samples"], "mismatches": mism}, "M3:Trace_C18", traces=1)
    vlib.scale_stage(v, wd, "C18")
    return v.finish("model_checking", "lists of <= %d cosmetic rules" % k, exhaustive=True)


def replay(path):
    print(open(path).read())
    return 0
