"""C18 - per-site cosmetic resources contain exactly the rules scoped to that host."""
from lib import vlib
from checks import coscommon, netcommon


def run(tier, seed):
    v = vlib.Verdict("C18", tier, seed)
    wd = vlib.workdir("C18")
    vlib.build_harness()
    k = 2 if tier == "quick" else 3
    _, rep = coscommon.mc_and_replay(v, wd, "c18", k, workers=12 if tier == "quick" else 15)
    vlib.require(rep["nontrivial"] > 10, "replay too small")
    # "a resource that requires any permission is never served as a redirect": the redirect universe (single rules)
    netcommon.mc_and_replay(v, wd, "c13", 1, False)
    # M3: argument encoding on random argument lists / spellings (control characters, quotes, backslashes, U+2028, $-sequences)
    import os, json
    tr = os.path.join(wd, "trace.ndjson")
    summ = json.loads(vlib.run_harness(["record", "c18", tr, str(seed), "2500" if tier == "quick" else "20000"]))
    rt, done, mism = vlib.trace_validate("Trace_C18", tr, wd, "trace")
    vlib.require(done["n"] == summ["events"], "trace length mismatch")
    v.add_tlc(rt)
    v.add_report({"evaluations": summ["events"], "nontrivial": summ["nontrivial"], "samples": summ["samples"], "mismatches": mism}, "M3:Trace_C18", traces=1)
    return v.finish("model_checking", "lists of <= %d cosmetic rules" % k, exhaustive=True)


def replay(path):
    print(open(path).read())
    return 0
