"""C19 - thread-safe build: concurrent queries equal sequential ones."""
import os, json
from lib import vlib

MC = """SPECIFICATION Spec
CONSTANTS
  Threads = {%s}
  Queries = {"n1", "n2", "csp", "cos"}
  M = %d
  RegexOf <- RegexOfC
  DevPanicOnRecompile = %s
  DevTryLock = %s
INVARIANTS MutualExclusion LockConsistent NoPanic AnswersSequential DeadlockFree
PROPERTIES EveryQueryEnds
CHECK_DEADLOCK FALSE
"""
TR = """INIT Init2
NEXT Next2
CONSTANTS
  Threads = {%s}
  Queries = {"1"}
  M = %d
  RegexOf <- RegexOfT
  DevPanicOnRecompile = FALSE
  DevTryLock = FALSE
POSTCONDITION Done
CHECK_DEADLOCK FALSE
"""


def run(tier, seed):
    v = vlib.Verdict("C19", tier, seed)
    wd = vlib.workdir("C19")
    vlib.build_harness()
    vlib.build_harness(sync=True)
    # M1: every interleaving of the spec
    th = '"t1", "t2"' if tier == "quick" else '"t1", "t2", "t3"'
    r = vlib.run_tlc("MC_Concurrency", MC % (th, 2, "FALSE", "FALSE"), wd, "mc", workers=12, timeout=1500, heap="12g")
    if r["error"]:
        raise vlib.ToolError("M1 failed: " + r["error"][:1500])
    v.add_tlc(r)
    # unbounded: TLAPS proof of the lock discipline for any number of threads / queries (spec/proofs/ConcurrencyProof.tla)
    n_obl = vlib.run_tlapm("ConcurrencyProof", wd)
    v.assumptions.append("TLAPS: %d proof obligations of spec/proofs/ConcurrencyProof.tla proved (mutual exclusion, lock consistency, "
                         "no panic / poisoning, sequential answers, for arbitrary Threads, Queries and M; no deviation switched on)" % n_obl)
    # spec sensitivity: each deviation switch must be found
    for name, flags, inv in [("try_lock", ("FALSE", "TRUE"), "NoPanic"), ("no-recompile", ("TRUE", "FALSE"), "NoPanic")]:
        rd = vlib.run_tlc("MC_Concurrency", MC % ('"t1", "t2"', 2, flags[0], flags[1]), wd, "mc_dev_" + name, workers=8, timeout=600)
        vlib.require(rd["error"] and inv in rd["error"], "Concurrency spec lost its sensitivity to deviation " + name)
    # M3: free-running real threads on the thread-safe build; the unsync build supplies its sequential table
    unsync = os.path.join(wd, "unsync.json")
    vlib.run_harness(["c19seq", unsync])
    runs = 3 if tier == "quick" else 12
    threads, per = (8, 1500) if tier == "quick" else (16, 5000)
    for k in range(runs):
        tr = os.path.join(wd, "trace%d.ndjson" % k)
        out = vlib.run_harness(["c19", tr, str(seed * 100 + k), str(threads), str(per), unsync], sync=True, timeout=600)
        summ = json.loads(out)
        tids = ", ".join('"%d"' % (i + 1) for i in range(threads))
        rt = vlib.run_tlc("Trace_C19", TR % (tids, per), wd, "trace%d" % k, workers=1, timeout=1500, env={"TRACE": tr}, heap="8g", deque=True)
        if rt["error"]:
            raise vlib.ToolError("trace validation failed in TLC: " + rt["error"][:1500])
        done = [e for e in rt["exports"] if e.get("ev") == "DONE"]
        mism = [e for e in rt["exports"] if e.get("ev") == "MISMATCH"]
        vlib.require(len(done) == 1 and done[0]["n"] == summ["events"], "trace %d not fully consumed" % k)
        if not done[0].get("agree", False):
            mism.append({"ev": "MISMATCH", "what": "configurations", "observed": "thread-safe and single-thread builds give different sequential answers", "allowed": [], "devs": []})
        v.add_tlc(rt)
        v.add_report({"evaluations": threads * per, "nontrivial": summ["nontrivial"], "samples": summ["samples"], "mismatches": mism},
                     "M3:Trace_C19/run%d" % k, traces=1)
    # "the thread-safe and single-thread builds give identical answers to identical queries", over long single-threaded
    # histories (tag switches, rule additions, reloads, cache discards): the thread-safe build is driven through the
    # histories of C06 and validated against the same specification (Trace_C06)
    from checks import enginecommon
    nruns, nops = (1, 500) if tier == "quick" else (4, 3000)
    enginecommon.longhist_stage(v, wd, seed, "blocker", nruns, nops, sync=True)
    enginecommon.longhist_stage(v, wd, seed, "engine", nruns, nops, sync=True)
    vlib.require(v.violations or v.cov["distinct_nontrivial"] > 100, "almost no lock hand-overs between threads: the runs were effectively sequential")
    v.assumptions += ["real schedules are sampled (free-running threads released by a barrier), only the specification's interleavings are exhaustive",
                      "a run that does not finish within 60 s is recorded as a deadlock",
                      "answers are compared through digests of the full result structures; the sequential table is computed on both feature configurations"]
    vlib.scale_stage(v, wd, "C19", sync=True)
    vlib.scale_stage(v, wd, "C19")
    return v.finish("model_checking",
                    "M1: all interleavings of %s threads x 2 queries of 4 kinds around the regex-manager lock with nondeterministic cache discards "
                    "(mutual exclusion, no panic/poisoning, deadlock freedom, sequential answers, termination under weak fairness), plus two deviation "
                    "switches that must be found. M3: %d runs of %d free-running threads x %d mixed queries (network with regex rules, csp, cosmetic) "
                    "on one shared engine with the 1ns/0 discard policy in the thread-safe build, every lock acquisition/release observed through the "
                    "cfg-guarded hooks and replayed through the spec's actions; distinct_nontrivial = lock hand-overs between different threads"
                    % ("2" if tier == "quick" else "3", runs, threads, per), exhaustive=False)


def replay(path):
    print(open(path).read())
    return 0
