"""C20 - content-blocking export is total and emits only well-formed, ordered rules."""
import os, json
from lib import vlib
from checks import c02 as c02mod


def run(tier, seed):
    v = vlib.Verdict("C20", tier, seed)
    wd = vlib.workdir("C20")
    vlib.build_harness()
    # the C02 pattern universe, with the Ideal matches, supplies the "rule matches URL" facts
    sigma = ['"a"', '"b"', '"."', '"/"', '"^"', '"*"']
    r = vlib.run_tlc("MC_C02", c02mod.CFG % (3 if tier == "quick" else 4, ", ".join(sigma), "TRUE", "FALSE", "FALSE"), wd, "mc_c02", workers=12, timeout=3000)
    if r["error"]:
        raise vlib.ToolError("M1 (pattern universe) failed: " + r["error"][:1500])
    v.add_tlc(r)
    # second alphabet: regex metacharacters as literal pattern text (they must be escaped in the emitted url-filter)
    sigma2 = ['"a"', '"+"', '"("', '"."', '"/"', '"^"']
    r2 = vlib.run_tlc("MC_C02", c02mod.CFG % (3 if tier == "quick" else 4, ", ".join(sigma2), "TRUE", "FALSE", "FALSE"), wd, "mc_c02_meta", workers=12, timeout=3000)
    if r2["error"]:
        raise vlib.ToolError("M1 (metacharacter pattern universe) failed: " + r2["error"][:1500])
    v.add_tlc(r2)
    cases = os.path.join(wd, "c02cases.jsonl")
    vlib.write_jsonl(cases, r["exports"] + [e for e in r2["exports"] if e.get("k") != "universe"])
    tr = os.path.join(wd, "trace.ndjson")
    allcases = r["exports"] + r2["exports"]
    n_plain = sum(1 for e in allcases if e.get("k") == "c02" and "*" not in e["rule"] and "^" not in e["rule"])
    # every plain pattern and hand-written rule once, then random rule sets
    n = n_plain + 100 + (1200 if tier == "quick" else 40000)
    summ = json.loads(vlib.run_harness(["record", "c20", tr, str(seed), str(n), cases], timeout=3000))
    vlib.require(summ["counters"]["plain_c02_patterns"] > 50, "no plain patterns for the implication clause")
    rt, done, mism = vlib.trace_validate("Trace_C20", tr, wd, "trace", heap="8g")
    vlib.require(done["n"] == summ["events"], "trace length mismatch")
    v.add_tlc(rt)
    v.add_report({"evaluations": summ["events"], "nontrivial": summ["nontrivial"], "samples": summ["samples"], "mismatches": mism,
                  "counters": summ["counters"]}, "M3:Trace_C20", traces=1)
    vlib.scale_stage(v, wd, "C20")
    return v.finish("model_checking", "rule sets", exhaustive=False)


def replay(path):
    print(open(path).read())
    return 0
