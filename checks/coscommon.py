"""Shared driver for the cosmetic properties decided on MC_Cos universes (C16, C17, C18)."""
import os, json
from lib import vlib

CFG = """INIT Init
NEXT Next
CONSTANTS
  U = "%s"
  K = %d
INVARIANTS PartitionOK Exported
CHECK_DEADLOCK FALSE
"""


def mc_and_replay(v, wd, universe, k, workers=12, timeout=1500, min_cases=10, extra=None):
    r = vlib.run_tlc("MC_Cos", CFG % (universe, k), wd, "mc_" + universe, workers=workers, timeout=timeout, heap="12g", extra=extra)
    if r["error"]:
        raise vlib.ToolError("M1 failed on universe %s: %s" % (universe, r["error"][:2000]))
    v.add_tlc(r)
    uni = [e for e in r["exports"] if e.get("k") == "universe-cos"]
    rest = [e for e in r["exports"] if e.get("k") == "cos"]
    vlib.require(len(rest) > min_cases, "universe %s exported only %d cases" % (universe, len(rest)))
    cases = os.path.join(wd, "cases_%s.jsonl" % universe)
    vlib.write_jsonl(cases, uni + rest)
    rep_path = os.path.join(wd, "report_%s.json" % universe)
    vlib.run_harness(["replay", cases, rep_path], timeout=3000)
    rep = vlib.load_report(rep_path)
    v.add_report(rep, "M2:MC_Cos/" + universe, traces=len(rest))
    return r, rep
