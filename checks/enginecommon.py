"""Shared driver for the history-based properties decided on MC_Engine (C06, C07)."""
import os, json
from lib import vlib

CFG = """INIT Init
NEXT Next
CONSTANTS
  Mode = "%s"
  Depth = %d
  DevRegexKeyedByAddress = %s
  Allocs = "%s"
  InitSet = "%s"
  Ops = "%s"
  Export = %s
INVARIANTS HistoryIndependent Exported Bounded
PROPERTIES TagAlgebra
CHECK_DEADLOCK FALSE
"""


def histories(v, wd, mode, depth, workers=12, initset="full", ops="all"):
    """M1 + export with the deterministic allocator, then M2 replay of every history."""
    r = vlib.run_tlc("MC_Engine", CFG % (mode, depth, "FALSE", "first", initset, ops, "TRUE"), wd, "mc_%s_%s_%s_d%d" % (mode, initset, ops, depth),
                     workers=workers, timeout=3000, heap="12g")
    if r["error"]:
        raise vlib.ToolError("M1 failed (MC_Engine %s depth %d): %s" % (mode, depth, r["error"][:2000]))
    v.add_tlc(r)
    uni = [e for e in r["exports"] if e.get("k") == "universe"][:1]
    seen, hs = set(), []
    for e in r["exports"]:
        if e.get("k") != "hist":
            continue
        key = json.dumps(e, sort_keys=True)
        if key not in seen:
            seen.add(key)
            hs.append(e)
    vlib.require(len(hs) > 50, "too few histories exported")
    cases = os.path.join(wd, "hist_%s_%s_%s.jsonl" % (mode, initset, ops))
    vlib.write_jsonl(cases, uni + hs)
    rep_path = os.path.join(wd, "report_%s_%s_%s.json" % (mode, initset, ops))
    vlib.run_harness(["replay", cases, rep_path], timeout=3000)
    rep = vlib.load_report(rep_path)
    v.add_report(rep, "M2:MC_Engine/%s/%s/%s/d%d" % (mode, initset, ops, depth), traces=len(hs))
    return r, rep, len(hs)


def any_alloc(v, wd, mode, depth, workers=12):
    """M1 only: every placement of re-allocated rules keeps the invariant (fix in place)."""
    r = vlib.run_tlc("MC_Engine", CFG % (mode, depth, "FALSE", "any", "full", "all", "FALSE"), wd, "mc_any_%s_d%d" % (mode, depth),
                     workers=workers, timeout=3000, heap="12g")
    if r["error"]:
        raise vlib.ToolError("M1 (any allocator) failed: %s" % r["error"][:2000])
    v.add_tlc(r)
    return r


def dev_selftest(v, wd, depth=5, workers=8):
    """Spec sensitivity: with the pre-fix deviation switched on TLC must find the stale-regex history."""
    r = vlib.run_tlc("MC_Engine", CFG % ("blocker", depth, "TRUE", "any", "full", "all", "FALSE"), wd, "mc_dev", workers=workers, timeout=1800)
    vlib.require(r["error"] and "HistoryIndependent is violated" in r["error"],
                 "MC_Engine with DevRegexKeyedByAddress=TRUE no longer violates HistoryIndependent (model lost its sensitivity)")
    v.stage_info.append({"selftest": "DevRegexKeyedByAddress=TRUE => HistoryIndependent violated (expected)", "wall_s": r["wall_s"]})


def longhist_stage(v, wd, seed, mode, runs, n_ops):
    """M3 at scale: long random histories on one long-lived object holding ~300 rules (tagged regex and
    full-regex rules, fusable groups of threshold sizes), validated by Trace_C06 (abstract engine state
    machine + linear-scan oracle on the implementation's own matcher)."""
    for k in range(runs):
        tr = os.path.join(wd, "long_%s_%d.ndjson" % (mode, k))
        summ = json.loads(vlib.run_harness(["record", "c06", tr, str(seed * 10 + k), str(n_ops), mode], timeout=3000))
        rt, done, mism = vlib.trace_validate("Trace_C06", tr, wd, "long_%s_%d" % (mode, k), timeout=3000, heap="8g")
        vlib.require(done["n"] == summ["events"], "long-history trace length mismatch")
        v.add_tlc(rt)
        v.add_report({"evaluations": summ["events"], "nontrivial": summ["nontrivial"], "samples": summ["samples"], "mismatches": mism,
                      "counters": summ.get("counters", {})}, "M3:Trace_C06/%s/%d" % (mode, k), traces=1)
