"""Shared driver for the properties decided on MC_Net universes (C01, C03, C04, C05, C13, C14, C15)."""
import os, json
from lib import vlib

CFG = """INIT Init
NEXT Next
CONSTANTS
  U = "%s"
  K = %d
  Big = %s
  DevFirstTokenNotWhole = FALSE
  DevLastTokenIsFirst = FALSE
  DevUrlStarIsWildcard = FALSE
  DevKeyIgnoresTag = %s
INVARIANTS RefinesAndExports
CHECK_DEADLOCK FALSE
"""


def mc_and_replay(v, wd, universe, k, big, name=None, workers=12, timeout=3000, min_cases=10, extra=None):
    name = name or universe
    r = vlib.run_tlc("MC_Net", CFG % (universe, k, "TRUE" if big else "FALSE", "FALSE"), wd, "mc_" + name,
                     workers=workers, timeout=timeout, heap="12g", extra=extra)
    if r["error"]:
        raise vlib.ToolError("M1 failed on universe %s: %s" % (universe, r["error"][:2000]))
    v.add_tlc(r)
    vlib.require(len(r["exports"]) > min_cases, "universe %s exported only %d cases" % (universe, len(r["exports"])))
    cases = os.path.join(wd, "cases_%s.jsonl" % name)
    uni = [e for e in r["exports"] if e.get("k") == "universe"]
    rest = [e for e in r["exports"] if e.get("k") != "universe"]
    vlib.write_jsonl(cases, uni + rest)
    rep_path = os.path.join(wd, "report_%s.json" % name)
    vlib.run_harness(["replay", cases, rep_path], timeout=3000)
    rep = vlib.load_report(rep_path)
    v.add_report(rep, "M2:MC_Net/" + name, traces=len(rest))
    return r, rep


OPT_CFG = """INIT Init
NEXT Next
CONSTANTS
  K = %d
  Big = FALSE
INVARIANTS Synonyms Exported
CHECK_DEADLOCK FALSE
"""


def option_spellings(v, wd, k):
    """Options.tla: from option TEXT to the rule AST.  TLC enumerates every sequence of <= k option tokens
    (every name and alias, negated or not, with good and bad values, unknown names) on plain and ||host^
    patterns, blocking and exception; exports accept/reject and the Ideal verdicts of the parsed rule."""
    r = vlib.run_tlc("MC_Opt", OPT_CFG % k, wd, "mc_opt", workers=12, timeout=3000, heap="12g")
    if r["error"]:
        raise vlib.ToolError("M1 failed on the option-spelling universe: " + r["error"][:2000])
    v.add_tlc(r)
    uni = [e for e in r["exports"] if e.get("k") == "universe"]
    rest = [e for e in r["exports"] if e.get("k") != "universe"]
    vlib.require(len(rest) > 300, "option-spelling universe exported only %d cases" % len(rest))
    cases = os.path.join(wd, "cases_opt.jsonl")
    vlib.write_jsonl(cases, uni + rest)
    rep_path = os.path.join(wd, "report_opt.json")
    vlib.run_harness(["replay", cases, rep_path], timeout=3000)
    rep = vlib.load_report(rep_path)
    v.add_report(rep, "M2:MC_Opt", traces=len(rest))
    return rep


def random_lists(v, wd, seed, n):
    """Universe rand of MC_Net: n random lists of 3..9 rules drawn by TLC (Randomization, seeded) from a product space of
    patterns x anchors x every option; Ideal verdicts / CSP, fuse groups, monotonicity replayed on real engines."""
    r, rep = mc_and_replay(v, wd, "rand", n, False, workers=12, extra=["-seed", str(seed)])
    vlib.require(rep["evaluations"] > 20 * n and rep["nontrivial"] > n // 2, "random network universe too small")
    return rep


def optimizer_selftest(v, wd):
    """Sensitivity of the M1 design property FuseSound (spec/Optimizer.tla): with the grouping key of
    the pinned tree (tag not part of the key, named deviation DevKeyIgnoresTag) TLC must find a list on
    which fusing changes a hit."""
    r = vlib.run_tlc("MC_Net", CFG % ("c05", 2, "FALSE", "TRUE"), wd, "mc_c05_devkey", workers=8, timeout=900, heap="8g")
    vlib.require(bool(r["error"]) and "RefinesAndExports" in r["error"],
                 "Optimizer.tla lost its sensitivity to the grouping key (DevKeyIgnoresTag did not violate FuseSound)")
    v.assumptions.append("M1 self-test: with DevKeyIgnoresTag = TRUE TLC reports a FuseSound violation on universe c05 (K=2)")


def corpus_stage(v, wd, seed, n_lists, reqs_per_list=40, name="corpus"):
    """M3 at realistic scale: real lists + synthetic threshold families, linear-scan oracle on the
    implementation's own matcher combined by the spec (Trace_C01), plus spec-verified hit claims."""
    tr = os.path.join(wd, "%s.ndjson" % name)
    summ = json.loads(vlib.run_harness(["record", "c01", tr, str(seed), str(n_lists), str(reqs_per_list)], timeout=3000))
    rt, done, mism = vlib.trace_validate("Trace_C01", tr, wd, name, timeout=3000, heap="8g")
    vlib.require(done["n"] == summ["events"], "corpus trace length mismatch")
    v.add_tlc(rt)
    v.add_report({"evaluations": summ["events"], "nontrivial": summ["nontrivial"], "samples": [
        {"url": s.get("url"), "list": s.get("list"), "hits": [h.get("line") for h in s.get("hits", [])][:4]} for s in summ["samples"]],
                  "mismatches": mism, "counters": summ.get("counters", {})}, "M3:Trace_C01/" + name, traces=1)
    vlib.require(v.violations or summ["nontrivial"] > 50, "corpus stage: almost no request hit any rule")
    return summ


def index_on_pattern_universe(v, wd, maxlen, workers=8):
    """C01 on the pattern universe of C02: TLC checks Tokens!IndexComplete (every token a rule may be filed under is
    probed by every request the rule's matcher accepts) for every pattern x URL, and the replay compares an engine
    holding only the rule with the rule's own matcher.  Pattern-semantics mismatches are C02's business and are
    not counted here."""
    from checks import c02
    sigma = ['"a"', '"b"', '"."', '"/"', '"^"', '"*"']
    r = vlib.run_tlc("MC_C02", c02.CFG % (maxlen, ", ".join(sigma), "TRUE", "FALSE", "FALSE"), wd, "mc_patterns", workers=workers, timeout=3000)
    if r["error"]:
        raise vlib.ToolError("M1 (pattern universe) failed: " + r["error"][:2000])
    v.add_tlc(r)
    cases = os.path.join(wd, "cases_patterns.jsonl")
    vlib.write_jsonl(cases, r["exports"])
    rep_path = os.path.join(wd, "report_patterns.json")
    vlib.run_harness(["replay", cases, rep_path])
    rep = vlib.load_report(rep_path)
    rep["mismatches"] = [m for m in rep.get("mismatches", []) if m.get("what") == "index-vs-matcher" or m.get("observed") == "panic"]
    vlib.require(rep["evaluations"] > 1000 and rep["nontrivial"] > 50, "pattern universe replay too small")
    v.add_report(rep, "M2:MC_C02/index", traces=len(r["exports"]) - 1)
    return rep
