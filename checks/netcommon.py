"""Shared driver for the properties decided on MC_Net universes (C01, C03, C04, C05, C13, C14, C15)."""
import os, json
from lib import vlib

CFG = """INIT Init
NEXT Next
CONSTANTS
  U = "%s"
  K = %d
  Big = %s
INVARIANTS RefinesAndExports
CHECK_DEADLOCK FALSE
"""


def mc_and_replay(v, wd, universe, k, big, name=None, workers=12, timeout=3000, min_cases=10):
    name = name or universe
    r = vlib.run_tlc("MC_Net", CFG % (universe, k, "TRUE" if big else "FALSE"), wd, "mc_" + name,
                     workers=workers, timeout=timeout, heap="12g")
    if r["error"]:
        raise vlib.ToolError("M1 failed on universe %s: %s" % (universe, r["error"][:2000]))
    v.add_tlc(r)
    vlib.require(len(r["exports"]) > min_cases, "universe %s exported only %d cases" % (universe, len(r["exports"])))
    cases = os.path.join(wd, "cases_%s.jsonl" % name)
    uni = [e for e in r["exports"] if e.get("k") == "universe"]
    rest = [e for e in r["exports"] if e.get("k") != "universe"]
    vlib.write_jsonl(cases, uni + rest)
    rep_path = os.path.join(wd, "report_%s.json" % name)
    vlib.run_harness(["replay", cases, rep_path], timeout=3000)
    rep = vlib.load_report(rep_path)
    v.add_report(rep, "M2:MC_Net/" + name, traces=len(rest))
    return r, rep
