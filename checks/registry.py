"""Which properties are claimed, at what level, and why (feeds bin/mkmanifest)."""
HOOK_COMMITS = []
NOT_CLAIMED = {}
TB = ("Trusted base: TLC 1.8.0 + CommunityModules Json/IOUtils; the Rust harness (argument rendering, comparison, "
      "catch_unwind); the Ideal operators as a reading of the property statement (adjudications logged in DESIGN.md). ")
CHECKS = {
 "C02": {
  "level": "model_checking",
  "technique": "TLA+ Ideal pattern semantics + code-shaped matcher model checked by TLC; exported cases replayed on NetworkFilter::matches; recorded random traces validated by TLC",
  "text": "TLC enumerates every pattern of a bounded universe (bodies up to length 3 quick / 4 thorough over {a,b,.,/,^,*} x 6 anchorings x 24 URLs with repeated anchor text), checks the code-shaped model of the nine matcher paths against the three-valued Ideal, and every pair is executed on the real matcher and compared with the Ideal; beyond the bound, seeded random patterns/URLs recorded from the real matcher are validated by the same TLA+ operator. Exhaustive in the small, sampled beyond.",
  "note": TB + "Hosts lower-case ASCII, host range known by construction. '||host|' left unspecified. Full-regex (/re/) rules are outside the spec's pattern language: that clause of C02 is not decided here.",
 },
}
