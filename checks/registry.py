"""Which properties are claimed, at what level, and why (feeds bin/mkmanifest)."""
HOOK_COMMITS = []
NOT_CLAIMED = {}
TB = ("Trusted base: TLC 1.8.0 + CommunityModules Json/IOUtils; the Rust harness (argument rendering, comparison, "
      "catch_unwind); the Ideal operators as a reading of the property statement (adjudications logged in DESIGN.md). ")
CHECKS = {
 "C02": {
  "level": "model_checking",
  "technique": "TLA+ Ideal pattern semantics + code-shaped matcher model checked by TLC; exported cases replayed on NetworkFilter::matches; recorded random traces validated by TLC",
  "text": "TLC enumerates every pattern of a bounded universe (bodies up to length 3 quick / 4 thorough over {a,b,.,/,^,*} x 6 anchorings x 24 URLs with repeated anchor text), checks the code-shaped model of the nine matcher paths against the three-valued Ideal, and every pair is executed on the real matcher and compared with the Ideal; beyond the bound, seeded random patterns/URLs recorded from the real matcher are validated by the same TLA+ operator. Exhaustive in the small, sampled beyond.",
  "note": TB + "Hosts lower-case ASCII, host range known by construction. '||host|' left unspecified. Full-regex (/re/) rules are outside the spec's pattern language: that clause of C02 is not decided here.",
 },

 "C03": {
  "level": "model_checking",
  "technique": "TLA+ Ideal option semantics (Net!Hit) + code-shaped hit model checked by TLC; every exported case replayed on single-rule engines and NetworkMatchable::matches",
  "text": "TLC enumerates every rule of {7 rule shapes} x {type-option sets} x {any,3p,1p} x {4 domain-list variants} (one state per rule), checks that the code-shaped hit model refines the Ideal outside named deviations, and exports the Ideal verdict/hit for every request of {request-type aliases} x {https,http,ws,wss,ftp} x {6 source relations}; each is executed on a real single-rule engine (optimised and not) and on the public matcher. Exhaustive over that cross product (quick: <=1 type atom plus selected pairs; thorough: all pairs and all 24 aliases).",
  "note": TB + "Third-party computed in the spec (single-label suffixes). $domain= without source hostname unspecified. match-case not covered (needs full-regex rules). Domain lists are fixed variants, not random.",
 },
 "C13": {
  "level": "model_checking",
  "technique": "TLA+ Ideal redirect choice (argmax set, exception by resource) enumerated by TLC over rule sets; replayed on real engines with a resource store",
  "text": "TLC enumerates all sets of <=3 rules from a pool of 41 redirect/redirect-rule/exception/blocking/important rules (priorities none,0,1,10,-1,malformed; resources present, aliased, missing, template, fn/javascript, permissioned) and exports the allowed verdicts (ties give a set); each case runs on real engines (optimised and not).",
  "note": TB + "Resources carry their name as content so the served data-URL identifies the winner. Equal-priority ties are unordered (any winner accepted).",
 },
 "C14": {
  "level": "model_checking",
  "technique": "TLA+ structural URL rewrite (Net!RewriteAllowed) enumerated by TLC over query/fragment shapes x rule sets; replayed on real engines",
  "text": "TLC enumerates sets of <=2 (quick) / <=3 rules from removeparam/blocking/important/exception rules and computes the structural rewrite for 200 URLs (20 query shapes x 5 fragment shapes x 2 request types); the real engine's rewritten_url must be one of the allowed strings byte for byte.",
  "note": TB + "Lenient where only empty '&&' pairs remain ('?' may or may not survive). Non-ASCII query strings are not in the bounded universe.",
 },
 "C15": {
  "level": "model_checking",
  "technique": "TLA+ set algebra (Net!CspFor) enumerated by TLC over csp rule sets x tag sets; replayed on Engine::get_csp_directives",
  "text": "TLC enumerates sets of <=3 (quick) / <=4 rules from 16 csp rules/exceptions/blanket exceptions (domains, tags, duplicates, badfilter, third-party) x tag sets, and the expected directive set for 72 requests (9 types x 4 sources x {https,ftp}); compared as sets with the real engine's policy.",
  "note": TB + "Directives are opaque tokens without commas.",
 },
}
