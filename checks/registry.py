"""Which properties are claimed, at what level, and why (feeds bin/mkmanifest)."""
HOOK_COMMITS = ["ac6b1dd"]
NOT_CLAIMED = {}
TB = ("Trusted base: TLC 1.8.0 + CommunityModules Json/IOUtils; the Rust harness (argument rendering, comparison, "
      "catch_unwind); the Ideal operators as a reading of the property statement (adjudications logged in DESIGN.md). ")
CHECKS = {
 "C02": {
  "level": "model_checking",
  "technique": "TLA+ Ideal pattern semantics + code-shaped matcher model checked by TLC; exported cases replayed on NetworkFilter::matches; recorded random traces validated by TLC",
  "text": "TLC enumerates every pattern of a bounded universe (bodies up to length 3 quick / 4 thorough over {a,b,.,/,^,*} x 6 anchorings x 24 URLs with repeated anchor text), checks the code-shaped model of the nine matcher paths against the three-valued Ideal, and every pair is executed on the real matcher and compared with the Ideal; beyond the bound, seeded random patterns/URLs recorded from the real matcher are validated by the same TLA+ operator. Exhaustive in the small, sampled beyond.",
  "note": TB + "Hosts lower-case ASCII, host range known by construction. '||host|' left unspecified. Full-regex (/re/) rules are outside the spec's pattern language: that clause of C02 is not decided here.",
 },

 "C03": {
  "level": "model_checking",
  "technique": "TLA+ Ideal option semantics (Net!Hit) + code-shaped hit model checked by TLC; every exported case replayed on single-rule engines and NetworkMatchable::matches",
  "text": "TLC enumerates every rule of {7 rule shapes} x {type-option sets} x {any,3p,1p} x {4 domain-list variants} (one state per rule), checks that the code-shaped hit model refines the Ideal outside named deviations, and exports the Ideal verdict/hit for every request of {request-type aliases} x {https,http,ws,wss,ftp} x {6 source relations}; each is executed on a real single-rule engine (optimised and not) and on the public matcher. Exhaustive over that cross product (quick: <=1 type atom plus selected pairs; thorough: all pairs and all 24 aliases). The text side is covered by Options.tla (option spelling -> rule AST: every option name and alias, negated or not, with good and bad values, unknown names; refused combinations): TLC enumerates every sequence of <=2 (quick) / <=3 tokens on plain and ||host^ patterns, blocking and exception, checks that aliases are exact synonyms, and exports accept/reject plus the Ideal verdicts of the parsed rule for replay on parse_filter and a real engine.",
  "note": TB + "Third-party computed in the spec (single-label suffixes). $domain= without source hostname unspecified. match-case not covered (needs full-regex rules). Domain lists are fixed variants, not random.",
 },
 "C13": {
  "level": "model_checking",
  "technique": "TLA+ Ideal redirect choice (argmax set, exception by resource) enumerated by TLC over rule sets; replayed on real engines with a resource store",
  "text": "TLC enumerates all sets of <=3 rules from a pool of 41 redirect/redirect-rule/exception/blocking/important rules (priorities none,0,1,10,-1,malformed; resources present, aliased, missing, template, fn/javascript, permissioned) and exports the allowed verdicts (ties give a set); each case runs on real engines (optimised and not).",
  "note": TB + "Resources carry their name as content so the served data-URL identifies the winner. Equal-priority ties are unordered (any winner accepted).",
 },
 "C14": {
  "level": "model_checking",
  "technique": "TLA+ structural URL rewrite (Net!RewriteAllowed) enumerated by TLC over query/fragment shapes x rule sets; replayed on real engines",
  "text": "TLC enumerates sets of <=2 (quick) / <=3 rules from removeparam/blocking/important/exception rules and computes the structural rewrite for 200 URLs (20 query shapes x 5 fragment shapes x 2 request types); the real engine's rewritten_url must be one of the allowed strings byte for byte.",
  "note": TB + "Lenient where only empty '&&' pairs remain ('?' may or may not survive). Non-ASCII query strings are not in the bounded universe.",
 },
 "C15": {
  "level": "model_checking",
  "technique": "TLA+ set algebra (Net!CspFor) enumerated by TLC over csp rule sets x tag sets; replayed on Engine::get_csp_directives",
  "text": "TLC enumerates sets of <=3 (quick) / <=4 rules from 16 csp rules/exceptions/blanket exceptions (domains, tags, duplicates, badfilter, third-party) x tag sets, and the expected directive set for 72 requests (9 types x 4 sources x {https,ftp}); compared as sets with the real engine's policy.",
  "note": TB + "Directives are opaque tokens without commas.",
 },

 "C01": {
  "level": "model_checking",
  "technique": "TLA+ Ideal verdict (Net!IdealVerdicts: per-rule three-valued hits combined with the documented precedence) enumerated by TLC over all small rule lists x tag sets; replayed on real engines (index, buckets, optimiser in the loop), incl. check_network_request_subset under all flag combinations (Net!VerdictsSubset); corpus-scale recorded runs validated by Trace_C01",
  "text": "TLC enumerates every list of <=2 (quick) / <=3 (thorough) rules from a 37-rule pool built to stress token boundaries (patterns whose first/last token is only part of a URL token, hostname anchors, scheme-folded rules, domain-dispatched rules), precedence categories, tags and badfilter twins, x every enabled-tag subset, plus all lists of <=3 (quick) / <=4 from a 14-rule pool of tokenless multi-domain rules and near-twins; for every request of the universe it computes the set of verdicts the rule-by-rule meaning allows and each case is executed on real engines built with and without optimisation. TLC also checks that the code-shaped per-rule hit model refines the Ideal outside named deviations.",
  "note": TB + "The index has an explicit model: Tokens.tla (token groups of a rule, probe tokens of a request, IndexComplete checked by TLC in MC_C02) and Optimizer.tla (category lists, histogram bucket choice with tie-breaking, fuse groups; the groups are compared with the debug text of optimised engines, disagreement = model drift, not a violation). Large lists are covered by the corpus stage (Trace_C01: real lists + threshold families, linear-scan oracle). Hash collisions assumed absent.",
 },
 "C04": {
  "level": "model_checking",
  "technique": "TLC checks precedence and monotonicity on the Ideal for every resolution of unspecified hits; real engines compared against the Ideal and, relationally, engine(L) vs engine(L+x) for every rule x of every exported list; badfilter twins/near-twins enumerated",
  "text": "Precedence (blocked iff important hit, or blocking hit and no active exception) and badfilter cancellation are part of the Ideal verdict, enumerated by TLC over all lists of <=2/3 rules of the c01 pool and over all pairs (triples in thorough) of 13 base rules x 27 badfilter twins and near-twins that differ from a base rule in exactly one matching option or pattern character. Monotonicity is checked twice: by TLC on the Ideal (invariant MonotoneIdeal) and relationally on real engines for every (L, x) obtained by removing one eligible rule from an exported list.",
  "note": TB + "Tag differences between a rule and its badfilter twin are outside the domain, as the property states.",
 },
 "C05": {
  "level": "model_checking",
  "technique": "explicit TLA+ model of rule storage and fusion (Optimizer.tla: category lists, histogram bucket choice, grouping key, fused matcher) with the design property FuseSound model-checked by TLC on every enumerated list; every case runs on an optimised and an unoptimised engine against the same Ideal and the observed fuse groups are compared with the model's; TLC-generated histories include Blocker::optimize on a live engine",
  "text": "All lists of <=3 (quick) / <=4 rules from 23 same-bucket near-twins that differ in exactly one attribute the optimiser must respect (exception, important, tag, regex-ness, anchors, type, party, domain, hostname anchor, redirect, removeparam), x tag sets; the domain-dispatch pool (rules shared between buckets); both engines must return an Ideal verdict for all requests. The explicit optimise operation is one of the actions of the MC_Engine state machine: every history of 4 (quick) / 5 operations is replayed on a live Blocker built with optimisation on and off.",
  "note": TB + "Equivalence is established through the Ideal, which is stronger than engine-vs-engine comparison except where the Ideal allows several outcomes.",
 },
 "C06": {
  "level": "model_checking",
  "technique": "TLA+ state machine of the engine (rules, tags, saved image; Impl: address-keyed regex cache + nondeterministic allocator); TLC checks history independence over all histories and exports each for replay on one long-lived Blocker/Engine",
  "text": "MC_Engine models every public mutator as an action (use/enable/disable tags, add_filter, optimize, discard all regexes, serialize, deserialize, query battery). TLC explores every history of 4 (quick) / 5 (thorough) operations, checks that the Impl layer (regex cache keyed by rule address, rules re-allocated at any free address on every tag change) answers every query with the Ideal answer for the current (rules, tags), under every allocator choice, and exports each history; each is replayed on one long-lived real object in three configurations (optimise off/on, aggressive discard policy) and every query step is compared with the Ideal of a freshly built engine. With the pre-fix deviation switched on, TLC reproduces the stale-regex counterexample (thorough self-test). Resource loading is part of the state machine (use_resources replaces, add_resource appends and reports acceptance, name/alias collisions resolved by loading order, deserialize keeps the resources): every history over those operations + save/load/discard/query is replayed on a live Engine, redirect answers and add_resource outcomes compared. Long random histories on ~300-rule objects are validated by Trace_C06. The compiled-regex cache has its own timed model (RegexCache.tla: compile on first use, cleanup by interval / idle time, recompile, discard_regex, policy change, clear on retag): TLC checks its design properties on exact ticks (MC_RegexCache), generates operation scripts in simulation mode that are replayed on real engines with real sleeps, and Trace_Regex validates the recorded run (clock readings taken around every call as intervals, three-valued comparisons, subset construction) - every answer in that run is compared with a fresh engine's.",
  "note": TB + "In the history stages real time is replaced by explicit discards and an aggressive discard policy (the RegexCache stage uses the real clock); a cache life cycle that differs from RegexCache.tla without changing an answer is reported as drift, not as a violation; the real allocator cannot be forced, so an address-reuse defect is found on the real code only when reuse happens (it did on the pre-fix tree). Cosmetic queries are not part of these histories (covered by C16/C08).",
 },
 "C07": {
  "level": "model_checking",
  "technique": "TLA+ tag algebra as an action property of the engine state machine + Active(rule) == tag in set in the Ideal; TLC-enumerated lists x tag subsets and TLC-generated histories replayed on real engines",
  "text": "Static: all lists of <=2 (quick) / <=3 rules from {block, exception, important, csp, csp-exception} x {untagged, t1, t2} plus fusable near-twins, under every enabled-tag subset, on optimised and unoptimised engines. Dynamic: every history of 4 (quick) / 5 operations over use/enable/disable/serialize/deserialize/discard/query (Engine; two initial lists, one without any tagged blocking rule) and add_filter/optimize (Blocker); the enabled set (tag_exists / tags_enabled) is compared after every operation and the battery at every query. TLC checks the action property TagAlgebra (use = assignment, enable = union, disable = difference, everything else leaves the set unchanged).",
  "note": TB + "tag+redirect and tag+removeparam are documented as unsupported and excluded.",
 },

 "C08": {
  "level": "model_checking",
  "technique": "TLC-enumerated rule lists (one rule per shape) with Ideal verdicts; each executed on an engine and on a second engine loaded from the first one's serialized image; the wire model names the fields the v0 format drops",
  "text": "TLC enumerates all lists of <=2 (quick) / <=3 rules from 29 rules covering every rule shape (all anchors and regex forms, every option bit, include/exclude domain lists, tags on block/exception/important/csp, redirect with priority, redirect-rule, redirect exception, csp, blanket csp exception, removeparam, scheme-folded, badfilter, tokenless multi-domain) x tag sets; the reloaded engine (tags set before loading) must give an Ideal verdict and the same answers as the original for every request. The wire layer of the spec predicts the reloaded behaviour when removeparam rules are present (open finding wireDropsRemoveparam).",
  "note": TB + "The cosmetic half of the image is covered by running the c16/c18/c17b cosmetic universes through the same reload leg. Debug on only (rule text is needed to render rules); optimise on and off.",
 },

 "C09": {
  "level": "model_checking",
  "technique": "TLA+ model of hash-seed dependent container iteration vs ordered views (Wire.tla) checked by TLC; recorded serializations (fresh builds, child processes, reloads) validated by a TLA+ trace spec",
  "text": "M1: Wire.tla gives every hash container of the image a nondeterministic iteration order per process and per reload; TLC checks that the image is one value and a fixpoint when every container goes through an ordered view (and finds the counterexample when one is switched to raw iteration). M3: the real engine serializes 6 (quick) / 30 lists x 3 configurations by 3 fresh in-process builds, 3 / 12 child processes (fresh hash seeds) and after one and two reloads, plus 25x as many sparse lists (1-6 rules of 1-3 of 26 kinds: most containers empty, in every combination) in-process; Trace_C09 keeps the first image per configuration as state and rejects any later different one.",
  "note": TB + "Bytes are opaque (digest + length). The real hash seeds are sampled (fresh maps, fresh processes), not enumerated; big lists are sized so that every container has many entries, sparse lists so that most are empty.",
 },
 "C10": {
  "level": "fault_enumeration",
  "technique": "exhaustive single-fault enumeration (prefixes, bit flips, structural byte substitutions, header variants) + seeded multi-byte/random inputs loaded in sequence into one long-lived engine; the recorded run is validated by a TLA+ trace spec built on Load.tla (atomic load state machine)",
  "text": "Load.tla states the allowed outcomes of a load (valid image: state replaced, tags kept; rejected: nothing changes; accepted corrupt: any state but no panic) and TLC checks atomicity on it, including that a non-atomic commit (deviation switch) is found. The harness enumerates 29k (quick) / 110k faults of three valid images (the third holds rules at the edge of what the matchers assume: one-byte, non-ASCII-leading, complete-regex and one-label patterns, none of which matches a battery request so that every one is evaluated by every query), loads each into one long-lived engine with enabled tags, runs a 13-query battery (network, csp, cosmetic, class/id, tag_exists) and re-serializes after every load, interleaving valid loads; peak allocation during each load is measured. Trace_C10 replays the whole event sequence through the Load actions: the battery digest after a rejected load must equal the digest of the state before it.",
  "note": TB + "Allocation bound 64 MiB + 4 KiB/byte (counting allocator). Process aborts would surface as tool errors. Battery digests stand for engine state.",
 },

 "C16": {
  "level": "model_checking",
  "technique": "TLA+ Ideal of per-site cosmetic resources (Cosmetic!HideSelectors/Actions/Scripts over label-sequence host covering) enumerated by TLC over rule lists x page hosts; replayed on Engine::url_cosmetic_resources, also after a serialize/deserialize round trip",
  "text": "TLC enumerates all lists of <=2 (quick) / <=3 rules from a 37-rule pool (hostnames, subdomains, entities, public-suffix-only locations, negations, negation-only rules, generic rules, #@# at the same, a deeper and a shallower level than the rule they cancel, :style/:remove/:remove-attr/:remove-class, +js with arguments, blanket +js exception, IDN locations in non-first position) against 13 page hosts (depths 1-3 under com, co.uk and an IDN suffix, look-alike hosts) with $generichide exceptions; hide selectors, exceptions, action filters (parsed JSON), injected scriptlet calls and the generichide flag are compared as sets. The text side is covered by CosParse.tla (cosmetic line = locations # marker # body -> rule record or refusal: markers, generic unhide / scriptlet / action, double negation, AdGuard markers, location modifiers, regex locations, html filters, action arguments): all 3080 lines of 14 location texts x 11 markers x 20 bodies are parsed by the spec and replayed as one-line lists (accept / reject and per-site resources).",
  "note": TB + "The public-suffix list is modelled for the suffixes of the universe (com, net, co.uk, рф); C12 checks the real resolver. Procedural operators need the css-validation feature and are not covered. Identical-text exception semantics follow the statement ('minus everything excepted for that host').",
 },
 "C17": {
  "level": "model_checking",
  "technique": "TLA+ CSS identifier unescaping (Cosmetic!LeadingKey) and partition invariant checked by TLC; enumerated generic rule sets x class/id/exception sets replayed on hidden_class_id_selectors and url_cosmetic_resources",
  "text": "TLC enumerates all sets of <=2 (quick) / <=3 rules from 33 generic selectors (simple, compound, complex, escaped identifiers, hex escapes with and without terminating space and in both cases, non-ASCII, selectors with no extractable key) plus exceptions and negation-only rules, and all sets of <=3 / <=5 from a pool of complex rules sharing one leading class/id with exceptions naming some of them; for 9 x 4 class/id sets the lookup result (with the page's own exception set) and the per-site hide selectors are compared; TLC checks the partition invariant (reachable by lookup XOR delivered per site).",
  "note": TB + "Hex escapes are decoded through a table covering the code points of the universe.",
 },
 "C18": {
  "level": "model_checking",
  "technique": "TLA+ permission gate over the dependency closure + argument-list parser (Cosmetic!Injection/ParseArgs); TLC-enumerated rule sets x permissions x resource stores replayed on the real engine; random argument lists recorded from the real engine validated by TLC (Decode(Encode(arg)) = arg)",
  "text": "TLC enumerates all sets of <=2 (quick) / <=3 +js rules over 22 argument spellings x list permissions {0,1,2,3} against a store with permissioned scriptlets, permissioned transitive dependencies (incl. a dependency cycle and a missing dependency), aliases, template-style and non-injectable resources, identical and blanket exceptions; each page is queried 6 times because injection order varies per call. M3: 2.5k (quick) / 20k random argument lists (all C0 controls, quotes, backslashes, U+2028/9, $-sequences, non-ASCII, </script>) in random quoting styles go through a real engine; the emitted literals are parsed back and Trace_C18 checks them against the spec's ParseArgs.",
  "note": TB + "serde_json stands in for a JavaScript string-literal parser (valid for ES2019). Escaped quote characters inside a quoted argument are not generated (their meaning is not pinned). The 256x256 mask table is enumerated exhaustively by TLC (MC_Perm, requirement subset-of grant) and replayed at three levels (PermissionMask::is_injectable_by, ResourceStorage::get_scriptlet_resources incl. a dependency with its own requirement for 8 dependency masks, Engine with a rule list carrying the grant); redirect refusal of permissioned resources is covered in C13.",
 },

 "C11": {
  "level": "model_checking",
  "technique": "TLC-enumerated lists of annotated lines x formats x rule-type options with the spec's reference list (relational clauses, M2); exhaustive boundary sliding + seeded grammar mutation recorded from the real parser and validated by a TLA+ trace spec (totality clause, thin spec)",
  "text": "Relational clauses: TLC enumerates all lists of <=2 (quick) / <=3 lines from 42 lines whose outcome per format the spec knows by construction (network, cosmetic, 22 kinds of rejected lines, hosts entries incl. comments, localhost, three fields, invalid characters) x {standard, hosts} x {all, network-only, cosmetic-only}; the engine built from the list (three loading paths) must equal, on a 13-request + 3-page battery, the engine built with default options from the spec's reference lines (accepted lines, '||host^' for hosts entries), and the numbers of parsed rules must match. The dispatch itself has a lexical model (MC_Classify: comment / network / cosmetic by byte-exact tests - one-byte lines, a second # within four BYTES of the first, $$, [Adblock headers - then the rule-type option): TLC enumerates all 111k (quick) / 1.1M lines of <=5/6 characters over a 10-symbol alphabet with a two-byte character and the class under each rule-type option is compared with parse_filter. Totality: 8 multi-byte/whitespace characters slid across every character offset of 37 rule shapes (exhaustive), then seeded mutations/splices of those and of corpus lines, parsed under 4 option sets, loaded between two good lines, plus the 1024-byte metadata cut; list metadata (Title / Homepage / Redirect / Expires with its ranges, first occurrence wins, head-of-list cut) is part of the enumerated lines and compared for read_list_metadata and add_filter_list; Trace_C11 allows only the outcomes the options permit, never a panic, and requires rejected lines to leave the engine unchanged.",
  "note": TB + "For the totality clause the specification only contributes the set of allowed outcomes (DESIGN.md section 8): the exploration strength is the generator's (level exploration for that clause).",
 },
 "C12": {
  "level": "model_checking",
  "technique": "TLA+ URL records rendered to text with the Ideal classification (hostname, party via registrable domains, scheme class, websocket forcing) enumerated by TLC; replayed on Request::new and Request::preparsed; arbitrary strings recorded and validated by a TLA+ trace spec (totality)",
  "text": "TLC enumerates URL records over 7 scheme spellings x userinfo variants (with ':' and '@') x 17 hosts (subdomains, multi-label public suffix, single label, IPv4, upper case, IDN) x ports x 7 path/query/fragment shapes (incl. '@' after the host and an empty path) x 11 sources (incl. absent, unparseable, a public suffix) x request types: 110k (quick) / 1.4M cases; hostname, third-party, supported, http/https and type are compared, and Request::preparsed on the consistent tuple must equal Request::new field by field and in engine verdicts. Totality: 20k / 200k arbitrary strings (control characters, tabs/newlines, IPv6 brackets, percent escapes, astral characters, punycode) for all arguments of both constructors; no panic, and scheme flags consistent.",
  "note": TB + "The registrable domain is computed in the spec for the suffixes of the universe (com, net, co.uk, рф) and must agree with the real resolver, which is thereby checked on that universe; punycode is a given table. Trailing-dot hosts and IPv6 literals are only in the totality part.",
 },
 "C19": {
  "level": "model_checking",
  "technique": "TLA+ specification of N threads x M queries around the regex-manager lock (Concurrency.tla) checked by TLC incl. liveness; real multi-threaded runs on the thread-safe build observed through cfg-guarded lock hooks and validated event by event against the spec's actions",
  "text": "M1: all interleavings of 2 (quick) / 3 threads x 2 queries with nondeterministic cache discards: mutual exclusion, lock consistency, no panic (poisoning), deadlock freedom, sequential answers, every started query ends under weak fairness; two deviation switches (try_lock; discarded regex not recompiled) must be found. M3: 3 (quick) / 12 runs of 8 / 16 free-running threads x 1500 / 5000 mixed network/csp/cosmetic queries on one shared engine with the 1ns/0 discard policy; begin/locked/unlocking/end events carry a global sequence number taken under the lock; Trace_C19 maps them to the spec's Begin/Acquire/Work.Release steps, checks every answer against the sequential table, and checks that the thread-safe and the single-thread build have the same table.",
  "note": TB + "Real schedules are sampled, not enumerated; forcing TLC-generated schedules onto real threads is not implemented. A hang is turned into a 'deadlock' event by a 60 s watchdog.",
 },
 "C20": {
  "level": "model_checking",
  "technique": "TLA+ output predicates (ASCII, Safari regex subset scanner, domain-list exclusivity, ordering, converted-list consistency) and Match => CbMatch over the TLC-enumerated C02 pattern universe; conversions recorded from the real exporter and validated by a TLA+ trace spec",
  "text": "Every conversion is an event checked by Trace_C20: each emitted rule must be ASCII, its url-filter must pass a character-level scanner for the regex subset Safari accepts, never carry both domain lists, all ignore-previous-rules entries come last, and the list of converted rules must be exactly the input rules that produce output on their own. Inputs: 69 hand-written rule shapes (every option, '$' inside patterns, from=, non-ASCII and non-IDNA domains, scheme-folded rules with contradictory types, entity/negated cosmetic locations), every plain pattern of the TLC-enumerated C02 universe (for which the Ideal match is exported and the emitted pattern must match every URL the rule must match), random sets of those, and 20-80 line samples of three real lists; 1.2k (quick) / 8k conversions.",
  "note": TB + "The emitted url-filter is evaluated with the regex crate (stand-in for Safari's engine). 'Plain pattern' = no '*' and no '^'. For totality the spec contributes only 'no panic' (exploration-level for that clause). One of the hand-written inputs was taken from a seeded-change report (see DESIGN.md).",
 },
}
