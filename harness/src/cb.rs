//! C20: content-blocking export (feature content-blocking).
use crate::util::*;
use adblock::lists::{FilterSet, ParseOptions};
use serde_json::{json, Value};

fn convert(rules: &[String]) -> Result<(Vec<Value>, Vec<String>), String> {
    guarded(|| {
        let mut fs = FilterSet::new(true);
        fs.add_filters(rules, ParseOptions::default());
        let (out, used) = fs.into_content_blocking().expect("debug mode");
        let out: Vec<Value> = out
            .iter()
            .map(|r| {
                let v = serde_json::to_value(r).unwrap();
                json!({
                    "type": v["action"]["type"],
                    "selector": v["action"]["selector"].as_str().unwrap_or(""),
                    "url_filter": v["trigger"]["url-filter"],
                    "if_domain": v["trigger"].get("if-domain").cloned().unwrap_or(json!([])),
                    "unless_domain": v["trigger"].get("unless-domain").cloned().unwrap_or(json!([])),
                    "case": v["trigger"].get("url-filter-is-case-sensitive").and_then(|b| b.as_bool()).unwrap_or(false),
                })
            })
            .collect();
        (out, used)
    })
}

/// For one plain rule: which of the URLs the emitted url-filter matches (None if nothing emitted)
pub fn cb_matches(rule: &str, urls: &[String]) -> Option<Vec<bool>> {
    let (out, _) = convert(&[rule.to_string()]).ok()?;
    let first = out.iter().find(|o| o["type"] == json!("block"))?;
    let pat = first["url_filter"].as_str()?;
    let re = regex::RegexBuilder::new(pat).case_insensitive(!first["case"].as_bool().unwrap_or(false)).build().ok()?;
    Some(urls.iter().map(|u| re.is_match(u)).collect())
}

pub fn record_c20(out: &str, seed: u64, n: usize, c02_cases: &str) {
    let mut rng = Rng::new(seed);
    let mut w = LineWriter::create(out);
    let hand: Vec<String> = [
        "||example.com^", "||example.com/ads/*.js", "/banner/", "-ad-", "|https://x.com/a", "x.com/a|", "|https://x.com/a|", "||x.com^$third-party",
        "||x.com^$first-party", "||x.com^$script,image", "||x.com^$~script", "||x.com^$document,script", "||x.com^$subdocument", "||x.com^$object",
        "||x.com^$ping,other,websocket", "||x.com^$domain=a.com", "||x.com^$domain=~a.com", "||x.com^$domain=a.com|~b.com", "||x.com^$from=a.com",
        "||x.com^$domain=bücher.example", "||x.com^$domain=xn--ü.com", "||x.com^$domain=\u{fffd}ü.com", "@@||x.com^", "@@||x.com^$document", "@@||x.com^$image,subdocument", "@@||cdn.x.com^$script,subdocument,font", "||x.com^$important",
        "||x.com^$redirect=noop.js", "||x.com^$csp=x", "||x.com^$removeparam=a", "||x.com^$badfilter", "@@||x.com^$generichide", "/re[0-9]{2}x/",
        "/re.x/$match-case", "|http://", "|https://", "|ws://", "|ws://$~websocket", "|http://$websocket", "|https://$image", "*$image", "*$third-party,script",
        "/a$b$script", "/banner$domain=ads.example|~cdn.example/track.js$script,domain=news.example", "a$domain=x.com,image", "/a.b?c=d&e+f(g)[h]{i}|j\\k^l",
        "/реклама/banner.gif", "||пример.рф^", "-баннер-$image,third-party",
        // non-ASCII text in the path of rules that take the other conversion paths: several types with subdocument (split into
        // two entries), exceptions, a party option, a domain list
        "||x.com/bük*.jpg$image,subdocument", "/реклама/*$script,subdocument,domain=news.example", "@@/реклама/*$image,subdocument",
        "||x.com/é$subdocument", "/é/*$image,third-party", "@@||x.com/ü^$document", "||x.com^$tag=t", "||x.com*y^", "||x.com^*/ads", "||*.x.com^", "||x.com:8080/a",
        // regex metacharacters inside the ||host part (the parser keeps whatever precedes the first '/', '^' or '*')
        "||a+b.example.com/x", "||ads{n}.example.com^", "||a(b.example.com^", "||cdn$1.example.com^$script", "||a[b].example.com^", "||a?b.example.com^$image",
        "||a|b.example.com^", "||a\\b.example.com^",
        "example.com##.ad", "example.com,~sub.example.com##.ad", "~example.com##.ad", "example.*##.ad", "~example.*##.ad", "example.com,example.*##.ad",
        "example.com#@#.ad", "##.generic", "###id", "example.com##.s:style(color: red)", "example.com##+js(sc)", "пример.рф##.x", "example.com##.реклама",
        "bücher.example##.x", "example.com,/regex/##.x", "example.com##.a:has-text(x)", "example.com#?#.a:-abp-has(.b)",
    ].iter().map(|s| s.to_string()).collect();
    let corpus: Vec<String> = ["/repo/data/easylist.to/easylist/easylist.txt", "/repo/data/uBlockOrigin/filters.txt", "/repo/data/easylist.to/easylistgermany/easylistgermany.txt"]
        .iter().flat_map(|p| std::fs::read_to_string(p).unwrap_or_default().lines().map(|l| l.to_string()).collect::<Vec<_>>()).collect();
    // plain patterns of the C02 universe with their Ideal matches (TLC export), for Match => CbMatch
    let c02 = if c02_cases.is_empty() { vec![] } else { read_lines(c02_cases) };
    let urls: Vec<String> = c02.iter().find(|c| c["k"] == json!("universe")).map(|c| strs(&c["urls"])).unwrap_or_default();
    let plain: Vec<&Value> = c02.iter().filter(|c| c["k"] == json!("c02") && {
        let r = c["rule"].as_str().unwrap_or("");
        !r.contains('*') && !r.contains('^')
    }).collect();
    let mut ok = 0u64;
    let mut samples = vec![];
    let mut k = 0usize;
    while w.n < n {
        k += 1;
        let rules: Vec<String> = if k <= hand.len() {
            vec![hand[k - 1].clone()]
        } else if k <= hand.len() + plain.len() {
            vec![plain[k - 1 - hand.len()]["rule"].as_str().unwrap().to_string()]
        } else if rng.chance(1, 2) || corpus.is_empty() {
            (0..2 + rng.below(6)).map(|_| hand[rng.below(hand.len())].clone()).collect()
        } else {
            (0..20 + rng.below(60)).map(|_| corpus[rng.below(corpus.len())].clone()).collect()
        };
        let whole = convert(&rules);
        let (outcome, outv, used) = match &whole {
            Ok((o, u)) => ("ok".to_string(), o.clone(), u.clone()),
            Err(p) => (format!("panic:{}", p), vec![], vec![]),
        };
        // which rules produce output on their own (in input order; duplicates kept like `used` keeps them)
        let mut singles = vec![];
        if rules.len() <= 10 {
            for r in &rules {
                match convert(&[r.clone()]) {
                    Ok((_, u)) if !u.is_empty() => singles.push(r.trim().to_string()),
                    _ => {}
                }
            }
            // filters_used lists network rules first, then cosmetic ones
            let is_cos = |r: &String| adblock::lists::parse_filter(r, true, ParseOptions::default()).map(|p| matches!(p, adblock::lists::ParsedFilter::Cosmetic(_))).unwrap_or(false);
            let (mut a, mut b): (Vec<String>, Vec<String>) = (vec![], vec![]);
            for s in singles.drain(..) {
                if is_cos(&s) { b.push(s) } else { a.push(s) }
            }
            a.append(&mut b);
            singles = a;
        } else {
            singles = used.clone();
        }
        let mut matches = vec![];
        if rules.len() == 1 && k > hand.len() && k <= hand.len() + plain.len() {
            let c = plain[k - 1 - hand.len()];
            if let Some(cb) = cb_matches(&rules[0], &urls) {
                for (i, u) in urls.iter().enumerate() {
                    let must = c["allowed"][i] == json!([true]);
                    if must {
                        matches.push(json!({"rule": rules[0], "url": u, "must": must, "cb": cb[i]}));
                    }
                }
            }
        }
        if !outv.is_empty() {
            ok += 1;
        }
        let ev = json!({"outcome": outcome, "rules": if rules.len() <= 10 { json!(rules) } else { json!([format!("<{} corpus lines>", rules.len())]) },
                        "used": if rules.len() <= 10 { json!(used) } else { json!([]) }, "singles": if rules.len() <= 10 { json!(singles) } else { json!([]) },
                        "out": outv, "matches": matches});
        if samples.len() < 3 && ev["out"].as_array().map(|a| a.len() > 1).unwrap_or(false) && rules.len() <= 3 {
            samples.push(ev.clone());
        }
        w.put(&ev);
    }
    let events = w.n;
    w.finish();
    println!("{}", json!({"events": events, "nontrivial": ok, "samples": samples, "counters": {"plain_c02_patterns": plain.len(), "hand_rules": hand.len()}}));
}
