//! C19: the thread-safe build under real threads (M3), and the sequential answer table that both
//! feature configurations must agree on.
use crate::ser::fnv;
use crate::util::*;
use adblock::lists::ParseOptions;
use adblock::regex_manager::RegexManagerDiscardPolicy;
use adblock::request::Request;
use adblock::Engine;
use serde_json::{json, Value};

const RULES: &[&str] = &[
    "/ads/*/banner^", "||track.example.com^*/pixel", "/re[0-9]+x/", "|https://cdn.example.net/*.js|", "@@/ads/*/banner^$domain=ok.example",
    "/promo^$important", "||frame.example.com^$csp=script-src 'none'", "||frame.example.com^$csp=img-src *,tag=t1", "/tagged^x$tag=t1",
    "@@||g.example.com^$generichide", "||r.example.com^*.gif$redirect=1x1.gif", "/q?*utm=$removeparam=utm", "-banner-*-300x", "/a*b*c*d",
    // regex rules pinned on exactly one side: a recompiled regex must keep the anchor on the same side
    // token-less wildcard rules with one option mask: fused into one regex set (each pattern must survive a
    // discard-and-rebuild of that set)
    "adfr*wide", "spon*tall", "trk*pix",
    "/promo2/*.gif|", "|https://one.example/*/collect", "/lft*.png|$image", "|https://lft.example/*x$script",
    "example.com##.ad", "sub.example.com#@#.ad", "##.generic", "example.com##+js(sc, 1)", "g.example.com##.g", "##div[ad]",
];

pub fn queries() -> Vec<(String, String, String, String)> {
    // (kind, url, source, type)
    let mut v = vec![];
    for (u, s, t) in [
        ("https://x.com/ads/1/banner/", "https://y.com/", "script"), ("https://x.com/ads/1/banner/", "https://ok.example/", "script"),
        ("https://track.example.com/a/pixel", "https://y.com/", "image"), ("https://x.com/re123x/", "https://y.com/", "script"),
        ("https://cdn.example.net/lib.js", "https://y.com/", "script"), ("https://cdn.example.net/lib.js?x", "https://y.com/", "script"),
        ("https://x.com/promo/", "https://ok.example/", "image"), ("https://x.com/tagged/x", "https://y.com/", "script"),
        ("https://r.example.com/a.gif", "https://y.com/", "image"), ("https://x.com/q?a=1&utm=2", "https://y.com/", "xhr"),
        ("https://x.com/-banner-big-300x", "https://y.com/", "image"), ("https://x.com/a1b2c3d", "https://y.com/", "other"),
        ("https://x.com/nothing", "https://y.com/", "script"),
        ("https://site.test/promo2/summer/a.gif", "https://y.com/", "image"), ("https://site.test/promo2/summer/a.gif?x", "https://y.com/", "image"),
        ("https://one.example/v1/collect", "https://y.com/", "xhr"), ("https://two.example/?u=https://one.example/v1/collect", "https://y.com/", "xhr"),
        ("https://x.com/lft/a.png", "https://y.com/", "image"), ("https://x.com/lft/a.png#f", "https://y.com/", "image"),
        ("https://lft.example/ax", "https://y.com/", "script"), ("https://x.com/https://lft.example/ax", "https://y.com/", "script"),
        ("https://x.com/adfr/300/wide.png", "https://y.com/", "image"), ("https://x.com/spon/9/tall.png", "https://y.com/", "image"),
        ("https://x.com/trk/1/pix.gif", "https://y.com/", "image"), ("https://app.example.com/#/inbox?tab=unread", "https://y.com/", "xhr"),
    ] {
        v.push(("net".to_string(), u.to_string(), s.to_string(), t.to_string()));
    }
    v.push(("csp".into(), "https://frame.example.com/".into(), "https://frame.example.com/".into(), "document".into()));
    v.push(("csp".into(), "https://frame.example.com/f".into(), "https://y.com/".into(), "sub_frame".into()));
    for u in ["https://example.com/", "https://sub.example.com/", "https://g.example.com/", "https://other.org/"] {
        v.push(("cos".into(), u.to_string(), String::new(), String::new()));
    }
    v
}

pub fn engine() -> Engine {
    let mut e = Engine::from_rules_parametrised(RULES, ParseOptions::default(), true, true);
    e.use_tags(&["t1"]);
    e.use_resources(vec![
        crate::net::mk_resource("1x1.gif", vec![], "image/gif", 0, vec![], "GIF"),
        crate::net::mk_resource("sc.js", vec!["sc".into()], "application/javascript", 0, vec![], "function sc() {}"),
    ]);
    e.set_regex_discard_policy(RegexManagerDiscardPolicy {
        cleanup_interval: std::time::Duration::from_nanos(1),
        discard_unused_time: std::time::Duration::from_nanos(0),
    });
    e
}

pub fn answer(e: &Engine, q: &(String, String, String, String)) -> String {
    match q.0.as_str() {
        "net" => {
            let r = Request::new(&q.1, &q.2, &q.3).unwrap();
            fnv(crate::net::verdict_json(&e.check_network_request(&r)).to_string().as_bytes())
        }
        "csp" => {
            let r = Request::new(&q.1, &q.2, &q.3).unwrap();
            fnv(crate::net::csp_json(&e.get_csp_directives(&r)).to_string().as_bytes())
        }
        _ => {
            let c = e.url_cosmetic_resources(&q.1);
            let mut h: Vec<_> = c.hide_selectors.iter().cloned().collect();
            h.sort();
            let mut x: Vec<_> = c.exceptions.iter().cloned().collect();
            x.sort();
            fnv(format!("{:?}{:?}{}{}", h, x, c.injected_script, c.generichide).as_bytes())
        }
    }
}

/// the sequential answer table of this build configuration
pub fn seq_table() -> Vec<String> {
    let e = engine();
    let qs = queries();
    // the reference: an engine that never discards a compiled regex (default policy), every query asked once
    let mut calm = engine();
    calm.set_regex_discard_policy(RegexManagerDiscardPolicy::default());
    let reference: Vec<String> = qs.iter().map(|q| answer(&calm, q)).collect();
    // the engine under test discards after every query: twice, so that first use and use after a discard are covered
    let a: Vec<String> = qs.iter().map(|q| answer(&e, q)).collect();
    let b: Vec<String> = qs.iter().map(|q| answer(&e, q)).collect();
    assert_eq!(a, reference, "sequential answers under an aggressive discard policy differ from a never-discarding engine");
    assert_eq!(a, b, "sequential answers are not stable");
    reference
}

/// a panic in the code under test is data: the table then carries the panic text
pub fn seq_table_guarded() -> Vec<String> {
    match guarded(seq_table) {
        Ok(t) => t,
        Err(p) => queries().iter().map(|_| format!("panic-in-sequential-run:{}", p.chars().take(60).collect::<String>())).collect(),
    }
}

pub fn c19seq(out: &str) {
    std::fs::write(out, json!({"table": seq_table_guarded()}).to_string()).unwrap();
}

#[cfg(not(feature = "unsync"))]
pub fn record_c19(out: &str, seed: u64, threads: usize, per_thread: usize, unsync_table: &str) {
    use adblock::verif_hooks as hooks;
    use std::sync::atomic::{AtomicUsize, Ordering};
    let unsync: Value = serde_json::from_str(&std::fs::read_to_string(unsync_table).unwrap_or_default()).unwrap_or(json!({"table": []}));
    // the sequential table is computed on a helper thread: a lock that blocks even a single thread must end
    // as a deadlock outcome in the trace, not as a hung harness
    let (tx, rx) = std::sync::mpsc::channel();
    std::thread::spawn(move || { let _ = tx.send(seq_table_guarded()); });
    let table = match rx.recv_timeout(std::time::Duration::from_secs(120)) {
        Ok(t) => t,
        Err(_) => {
            let mut w2 = LineWriter::create(out);
            w2.put(&json!({"ev": "header", "t": 0, "q": 0, "digest": "", "seq": 0, "table": [], "unsync": [], "threads": threads, "per_thread": per_thread}));
            w2.put(&json!({"ev": "deadlock", "t": 0, "q": 0, "digest": "", "seq": 0}));
            w2.finish();
            println!("{}", json!({"events": 2, "nontrivial": 0, "samples": []}));
            std::process::exit(0);
        }
    };
    let e = engine();
    let qs = queries();
    let mut w = LineWriter::create(out);
    w.put(&json!({"ev": "header", "t": 0, "q": 0, "digest": "", "seq": 0, "table": table, "unsync": unsync["table"], "threads": threads, "per_thread": per_thread}));
    hooks::install();
    let finished = AtomicUsize::new(0);
    let progress = AtomicUsize::new(0);
    let logs: std::sync::Mutex<Vec<(u64, u64, usize, u64, String)>> = std::sync::Mutex::new(vec![]);
    let barrier = std::sync::Barrier::new(threads);
    std::thread::scope(|s| {
        for t in 0..threads {
            let (e, qs, logs, finished, barrier, progress) = (&e, &qs, &logs, &finished, &barrier, &progress);
            s.spawn(move || {
                hooks::set_thread_tag(t as u64 + 1);
                barrier.wait();
                let mut rng = Rng::new(seed.wrapping_mul(1000) + t as u64);
                let mut mine = vec![];
                for _ in 0..per_thread {
                    let qi = rng.below(qs.len());
                    let b = hooks::emit("begin");
                    let d = match guarded(|| answer(e, &qs[qi])) {
                        Ok(d) => d,
                        Err(p) => format!("panic:{}", p.chars().take(80).collect::<String>()),
                    };
                    let en = hooks::emit("end");
                    mine.push((b, t as u64 + 1, qi + 1, en, d));
                    progress.fetch_add(1, Ordering::SeqCst);
                }
                logs.lock().unwrap_or_else(|e| e.into_inner()).extend(mine);
                finished.fetch_add(1, Ordering::SeqCst);
            });
        }
        // watchdog: a run in which NO thread completes a query for 30 s is a deadlock outcome (reported
        // through the trace, then the process exits: stuck threads can never be joined).  Slowness is not a
        // deadlock: as long as queries keep completing, the run continues.
        let mut last = (progress.load(Ordering::SeqCst), std::time::Instant::now());
        loop {
            if finished.load(Ordering::SeqCst) == threads {
                return;
            }
            let p = progress.load(Ordering::SeqCst);
            if p != last.0 {
                last = (p, std::time::Instant::now());
            } else if last.1.elapsed() > std::time::Duration::from_secs(30) {
                let mut w2 = LineWriter::create(&format!("{}.deadlock", out));
                w2.put(&json!({"ev": "header", "t": 0, "q": 0, "digest": "", "seq": 0, "table": [], "unsync": [], "threads": threads, "per_thread": per_thread}));
                w2.put(&json!({"ev": "deadlock", "t": 0, "q": 0, "digest": "", "seq": 0}));
                w2.finish();
                let _ = std::fs::rename(format!("{}.deadlock", out), out);
                println!("{}", json!({"events": 2, "nontrivial": 0, "samples": []}));
                std::process::exit(0);
            }
            std::thread::sleep(std::time::Duration::from_millis(20));
        }
    });
    let events = hooks::drain();
    let logs = logs.into_inner().unwrap_or_else(|e| e.into_inner());
    let mut byseq: std::collections::HashMap<u64, (usize, String)> = Default::default();
    for (b, _t, q, en, d) in logs.iter() {
        byseq.insert(*b, (*q, String::new()));
        byseq.insert(*en, (*q, d.clone()));
    }
    let mut contended = 0u64;
    let mut last_locked_thread = 0u64;
    for (seq, tag, name) in events.iter() {
        let (q, d) = byseq.get(seq).cloned().unwrap_or((0, String::new()));
        if *name == "locked" {
            if last_locked_thread != 0 && last_locked_thread != *tag {
                contended += 1;
            }
            last_locked_thread = *tag;
        }
        w.put(&json!({"ev": name, "t": tag, "q": q, "digest": d, "seq": seq}));
    }
    let n = w.n;
    w.finish();
    println!("{}", json!({"events": n, "nontrivial": contended, "samples": [{"threads": threads, "queries_per_thread": per_thread, "lock_handovers_between_threads": contended}]}));
}
