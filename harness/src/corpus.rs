//! C01 M3: real lists, linear-scan oracle on the implementation's own per-rule matcher.
use crate::net::{csp_json, verdict_json};
use crate::util::*;
use adblock::filters::network::{NetworkFilter, NetworkFilterMaskHelper, NetworkMatchable};
use adblock::lists::ParseOptions;
use adblock::regex_manager::RegexManager;
use adblock::request::Request;
use adblock::Engine;
use serde_json::{json, Value};

struct TestReq {
    url: String,
    ty: String,
    filters: Vec<String>,
}

fn load_requests() -> Vec<TestReq> {
    let txt = std::fs::read_to_string("/repo/data/matching-test-requests.json").unwrap_or_else(|_| "[]".into());
    let v: Value = serde_json::from_str(&txt).unwrap_or(json!([]));
    v.as_array().map(|a| a.iter().map(|e| TestReq {
        url: e["url"].as_str().unwrap_or("").to_string(),
        ty: e["type"].as_str().unwrap_or("other").to_string(),
        filters: strs(&e["filters"]),
    }).collect()).unwrap_or_default()
}

fn load_lines(path: &str) -> Vec<String> {
    std::fs::read_to_string(path).unwrap_or_default().lines()
        .map(|l| l.trim().to_string())
        .filter(|l| !l.is_empty() && !l.starts_with('!') && !l.starts_with('[') && !l.contains("##") && !l.contains("#@#") && !l.contains("#?#") && !l.contains("#$#"))
        .collect()
}

fn attrs(f: &NetworkFilter, line: &str) -> Value {
    let mkind = if f.is_csp() { "csp" } else if f.is_removeparam() { "removeparam" } else if f.is_redirect() {
        if f.also_block_redirect() { "redirect" } else { "redirect-rule" } } else { "none" };
    let tag = line.rsplit('$').next().and_then(|o| o.split(',').find_map(|x| x.strip_prefix("tag="))).unwrap_or("");
    json!({"line": line, "exc": f.is_exception(), "important": f.is_important(), "ghide": f.is_generic_hide(), "tag": tag,
           "mkind": mkind, "mval": if mkind == "csp" || mkind == "removeparam" { f.modifier_option.clone().unwrap_or_default() } else { String::new() }})
}

/// Synthetic "family" lists: groups of N rules that share one token and one option mask, with N
/// swept around powers of two (bucket sizes, fused-group sizes, regex-set sizes), each rule matched
/// by exactly one URL; near-twin groups with other masks in the same bucket; long $domain= lists on
/// rules and on badfilter near-twins (never true twins, so nothing may be cancelled).
type ClaimUrl = (String, String, Vec<Value>, Vec<Value>);

fn ast(line: &str, left: &str, body: &str, right: bool, exc: bool, opt: &str, dom: &[String], ndom: &[String]) -> Value {
    let (mut pos, mut neg, mut party) = (vec![], vec![], "any");
    for o in opt.trim_start_matches('$').split(',').filter(|o| !o.is_empty()) {
        match o {
            "third-party" => party = "3p",
            "first-party" => party = "1p",
            x if x.starts_with('~') => neg.push(x[1..].to_string()),
            x => pos.push(x.to_string()),
        }
    }
    json!({"line": line, "left": left, "body": body, "right": right, "exc": exc, "pos": pos, "neg": neg, "party": party, "dom": dom, "ndom": ndom})
}

fn family_list(rng: &mut Rng, counter: &mut usize) -> (Vec<String>, Vec<ClaimUrl>) {
    let mut lines = vec![];
    let mut urls: Vec<ClaimUrl> = vec![];
    // thresholds first: whatever the tier, sizes around 64/128/256 and a few hundred come up
    let sizes = [65usize, 129, 300, 64, 257, 128, 513, 66, 130, 33, 127, 63, 256, 255, 31, 32, 2, 3, 1];
    let nfam = 3 + rng.below(3);
    for f in 0..nfam {
        // sizes are taken in order across the families of a run, so that even a short run covers the
        // thresholds; large groups are regex-shaped (they become one regex set when fused)
        let n = sizes[*counter % sizes.len()];
        *counter += 1;
        let word = format!("fam{}x{}", f, rng.below(1000));
        let shape = if n >= 257 { [1usize, 2, 4][rng.below(3)] } else { rng.below(6) };
        let opt = ["", "$script", "$third-party", "$image,script", "$~image", ""][rng.below(6)];
        let exc = rng.chance(1, 5);
        for k in 0..n {
            // every rule of a family shares the family word as its only usable token (the member number is
            // a trailing token, or sits next to a '*'), so the whole family lands in ONE bucket with ONE
            // option mask: bucket sizes, fused-group sizes and regex-set sizes all equal the family size
            let (pat, url) = match shape {
                0 => (format!("/{}/slot-{:03}", word, k), format!("https://cdn.example.net/{}/slot-{:03}.js", word, k)),
                1 => (format!("/{}/*x{:03}", word, k), format!("https://cdn.example.net/{}/banner-x{:03}.png", word, k)),
                2 => (format!("/{}{:03}*.gif", word, k), format!("https://img.example.org/{}{:03}_top.gif?cb=1", word, k)),
                3 => (format!("-{}-{:03}", word, k), format!("https://a.example.com/x-{}-{:03}.js", word, k)),
                4 => (format!("/{}/p*{:03}|", word, k), format!("https://a.example.com/q/{}/page{:03}", word, k)),
                _ => (format!("|https://cdn.example.com/{}/s{:03}", word, k), format!("https://cdn.example.com/{}/s{:03}.js", word, k)),
            };
            let line = format!("{}{}{}", if exc { "@@" } else { "" }, pat, opt);
            if k % 7 == 0 || k + 2 >= n || n <= 66 {
                let (left, body, right) = if let Some(b) = pat.strip_prefix('|') { ("pipe", b.to_string(), false) }
                    else if let Some(b) = pat.strip_suffix('|') { ("none", b.to_string(), true) } else { ("none", pat.clone(), false) };
                let a = ast(&line, left, &body, right, exc, opt, &[], &[]);
                urls.push((url.clone(), "script".to_string(), vec![a.clone()], vec![]));
                if k % 21 == 0 && shape != 4 && shape != 5 {
                    // the same target behind 140 one-character runs (few tokens, many runs)
                    let q: String = (0..70).map(|i| format!("{}={}&", (b'a' + (i % 26) as u8) as char, i % 10)).collect();
                    let tail = url.splitn(4, '/').nth(3).unwrap_or("");
                    urls.push((format!("https://t.example.net/?{}u=/{}", q, tail), "script".to_string(), vec![a], vec![]));
                }
            }
            lines.push(line);
        }
        if exc {
            lines.push(format!("/{}", word)); // something for the exceptions to except
        }
    }
    // long domain lists; a badfilter near-twin whose list differs in one entry
    for j in 0..(1 + rng.below(3)) {
        let n = [1usize, 2, 5, 8, 14, 16, 17, 20, 33, 40][rng.below(10)];
        let doms: Vec<String> = (0..n).map(|i| format!("news{:02}x{}.example.org", i, j)).collect();
        let mut other = doms.clone();
        let k = rng.below(n);
        other[k] = format!("other{:02}x{}.example.org", k, j);
        let neg = rng.chance(1, 3);
        let fmt = |d: &Vec<String>| d.iter().map(|x| if neg { format!("~{}", x) } else { x.clone() }).collect::<Vec<_>>().join("|");
        let line = format!("/dl{}/ad.$domain={}", j, fmt(&doms));
        lines.push(line.clone());
        lines.push(format!("/dl{}/ad.$domain={},badfilter", j, fmt(&other)));
        let body = format!("/dl{}/ad.", j);
        let a = if neg { ast(&line, "none", &body, false, false, "", &[], &doms) } else { ast(&line, "none", &body, false, false, "", &doms, &[]) };
        // a request from EVERY listed domain (and from a deep subdomain of it), and from one that is not listed
        for (i, d) in doms.iter().enumerate() {
            let src = if i % 3 == 0 { format!("l1.l2.l3.l4.l5.l6.l7.l8.l9.{}", d) } else { d.clone() };
            let u = format!("https://x.example.com/dl{}/ad.js#src=https://{}/", j, src);
            if neg { urls.push((u, "script".to_string(), vec![], vec![a.clone()])) } else { urls.push((u, "script".to_string(), vec![a.clone()], vec![])) }
        }
        let u = format!("https://x.example.com/dl{}/ad.js#src=https://{}/", j, other[k]);
        if neg { urls.push((u, "script".to_string(), vec![a.clone()], vec![])) } else { urls.push((u, "script".to_string(), vec![], vec![a.clone()])) }
    }
    // badfilter near-twins whose domain list is a strict SUBSET of the rule's (one extra domain on the rule): a
    // badfilter id computed from a lossy summary of the domain list (union of hashes, count, first entry ...) pairs them
    {
        let base: Vec<String> = (0..6).map(|i| format!("sub{:02}set.example.org", i)).collect();
        for i in 0..8 {
            let mut doms = base.clone();
            doms.push(format!("extra{}site.com", i));
            let line = format!("/dm{}/ad.$domain={}", i, doms.join("|"));
            lines.push(line.clone());
            lines.push(format!("/dm{}/ad.$domain={},badfilter", i, base.join("|")));
            let body = format!("/dm{}/ad.", i);
            let a = ast(&line, "none", &body, false, false, "", &doms, &[]);
            urls.push((format!("https://x.example.com/dm{}/ad.js#src=https://{}/", i, base[i % 6]), "script".to_string(), vec![a.clone()], vec![]));
            urls.push((format!("https://x.example.com/dm{}/ad.js#src=https://extra{}site.com/", i, i), "script".to_string(), vec![a.clone()], vec![]));
        }
    }
    // raw non-ASCII characters where a separator has to match
    lines.push("/uni/*img^".to_string());
    lines.push("/uni/*pixel^".to_string());
    lines.push("/uni2^x".to_string());
    for u in ["https://u.example.com/uni/v2/imgé.gif", "https://u.example.com/uni/v2/img→.gif", "https://u.example.com/uni/pixel日", "https://u.example.com/uni2→x", "https://u.example.com/uni2/x"] {
        urls.push((u.to_string(), "image".to_string(), vec![], vec![]));
    }
    (lines, urls)
}

pub fn record_c01(out: &str, seed: u64, n_lists: usize, reqs_per_list: usize) {
    let mut rng = Rng::new(seed);
    let mut w = LineWriter::create(out);
    let reqs = load_requests();
    let corpora: Vec<Vec<String>> = ["/repo/data/easylist.to/easylist/easylist.txt", "/repo/data/easylist.to/easylist/easyprivacy.txt",
        "/repo/data/uBlockOrigin/filters.txt", "/repo/data/uBlockOrigin/unbreak.txt", "/repo/data/brave/brave-unbreak.txt"]
        .iter().map(|p| load_lines(p)).filter(|v| !v.is_empty()).collect();
    let sources = ["https://news-site.example/page", "https://www.google.com/", "https://shop.example.co.uk/x", "https://sub.github.io/"];
    let mut nontrivial = 0u64;
    let mut samples = vec![];
    let mut lost_guard = 0u64;
    let mut fam_counter = 0usize;
    for li in 0..n_lists {
        // a list: the rules attached to a sample of recorded requests + random corpus lines + adversarial variants
        let mut lines: Vec<String> = vec![];
        let mut picked: Vec<usize> = vec![];
        let mut fam_urls: Vec<ClaimUrl> = vec![];
        let family = li % 2 == 1;
        if family {
            let (l, u) = family_list(&mut rng, &mut fam_counter);
            lines = l;
            fam_urls = u;
        }
        for _ in 0..(if family { 5 } else { reqs_per_list.min(reqs.len()) }) {
            let i = rng.below(reqs.len());
            picked.push(i);
            for f in &reqs[i].filters {
                if rng.chance(3, 4) {
                    lines.push(f.clone());
                }
            }
        }
        let extra = 50 + rng.below(if li % 3 == 0 { 3000 } else { 400 });
        for _ in 0..extra {
            let c = &corpora[rng.below(corpora.len())];
            lines.push(c[rng.below(c.len())].clone());
        }
        // corpus badfilter rules are dropped (cancellation needs the spec's Cancels on full ASTs); the
        // synthetic badfilter near-twins are kept: none of them is a true twin, so nothing is cancelled
        lines.retain(|l| !l.contains("badfilter") || l.starts_with("/dl") || l.starts_with("/dm"));
        lines.sort();
        lines.dedup();
        // shuffle deterministically
        for i in (1..lines.len()).rev() {
            lines.swap(i, rng.below(i + 1));
        }
        let parsed: Vec<(String, NetworkFilter)> = lines.iter()
            .filter_map(|l| NetworkFilter::parse(l, true, Default::default()).ok().map(|f| (l.clone(), f)))
            .filter(|(l, f)| { let tagged = l.contains("tag="); !(f.is_redirect() && tagged) && !(f.is_removeparam() && tagged) })
            .collect();
        let texts: Vec<String> = parsed.iter().map(|(l, _)| l.clone()).collect();
        let tags: Vec<String> = if rng.chance(1, 2) { vec![] } else { vec!["fb-embeds".into(), "twitter-embeds".into()] };
        let tagrefs: Vec<&str> = tags.iter().map(|s| s.as_str()).collect();
        let mut engines = vec![];
        for opt in [false, true] {
            let mut e = Engine::from_rules_parametrised(&texts, ParseOptions::default(), true, opt);
            e.use_tags(&tagrefs);
            engines.push(e);
        }
        // requests: the recorded ones (with a parseable source) and mutations that move token boundaries
        let mut urls: Vec<ClaimUrl> = fam_urls;
        for &i in &picked {
            urls.push((reqs[i].url.clone(), reqs[i].ty.clone(), vec![], vec![]));
            let u = &reqs[i].url;
            if let Some(p) = u.find("://") {
                if let Some(slash) = u[p + 3..].find('/') {
                    let cut = p + 3 + slash + 1;
                    // prepend a letter to the first path token, append one to the last
                    urls.push((format!("{}x{}", &u[..cut], &u[cut..]), reqs[i].ty.clone(), vec![], vec![]));
                    urls.push((format!("{}z", u), reqs[i].ty.clone(), vec![], vec![]));
                    urls.push((format!("{}?utm_source=a&fbclid=1&x=2", u.split('?').next().unwrap_or(u)), "document".to_string(), vec![], vec![]));
                    // many one-character runs but few tokens: the 127-token limit counts tokens, not runs
                    if rng.chance(1, 6) {
                        let q: String = (0..70).map(|k| format!("&{}={}", (b'a' + (k % 26) as u8) as char, k % 10)).collect();
                        let sep = if u.contains('?') { "" } else { "?v=1" };
                        urls.push((format!("{}{}{}", u, sep, q), reqs[i].ty.clone(), vec![], vec![]));
                    }
                }
            }
        }
        let mut rm = RegexManager::default();
        for (url, ty, must, mustnot) in urls {
            let (url, src) = match url.split_once("#src=") {
                Some((u, s)) => (u.to_string(), s.to_string()),
                None => (url.clone(), sources[rng.below(sources.len())].to_string()),
            };
            let req = match Request::new(&url, &src, &ty) {
                Ok(r) => r,
                Err(_) => continue,
            };
            if !req.is_http && !req.is_https {
                continue; // ws requests vs http-folded rules: matcher-level deviation masked by the index (C03)
            }
            if req.get_tokens().len() >= 127 {
                continue; // outside the property's quantifier
            }
            let hits: Vec<Value> = parsed.iter().filter(|(_, f)| f.matches(&req, &mut rm)).map(|(l, f)| attrs(f, l)).collect();
            let obs: Vec<Value> = engines.iter().map(|e| {
                let v = verdict_json(&e.check_network_request(&req));
                json!({"matched": v["matched"], "important": v["important"], "exception": v["exception"], "rewritten": v["rewritten"],
                       "csp": csp_json(&e.get_csp_directives(&req))})
            }).collect();
            if !hits.is_empty() {
                nontrivial += 1;
            }
            if hits.iter().any(|h| h["exc"] == json!(false) && h["mkind"] == json!("none")) && obs.iter().any(|o| o["matched"] == json!(false) && o["exception"] == json!(false)) {
                lost_guard += 1;
            }
            let scheme = if req.is_http { "http" } else { "https" };
            let ev = json!({"list": format!("L{}:{} rules", li, texts.len()), "url": req.url, "src": "news-site.example", "source": src, "type": ty, "scheme": scheme,
                            "tp": req.is_third_party, "tags": tags, "hits": hits, "obs": obs, "must": must, "mustnot": mustnot,
                            "srchost": Request::new(&src, "", "").map(|r| r.hostname).unwrap_or_default()});
            if samples.len() < 3 && ev["hits"].as_array().map(|a| a.len() >= 2).unwrap_or(false) {
                samples.push(ev.clone());
            }
            w.put(&ev);
        }
    }
    let events = w.n;
    w.finish();
    println!("{}", json!({"events": events, "nontrivial": nontrivial, "samples": samples, "counters": {"blocking_hit_but_not_blocked_nor_excepted": lost_guard}}));
}
