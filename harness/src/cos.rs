//! Cosmetic side: C16 (per-site resources), C17 (class/id lookup), C18 (scriptlets), C08 (reload).
use crate::net::mk_resource;
use crate::util::*;
use adblock::lists::{FilterSet, ParseOptions};
use adblock::resources::{PermissionMask, Resource};
use adblock::Engine;
use serde_json::{json, Value};
use std::collections::{BTreeSet, HashMap, HashSet};

#[derive(Default)]
pub struct CosCtx {
    pub resources: Vec<Resource>,
    pub fn_to_res: HashMap<String, (String, String)>, // function/template marker -> (resource name, style)
}

fn ident(name: &str) -> String {
    name.chars().map(|c| if c.is_ascii_alphanumeric() { c } else { '_' }).collect()
}

impl CosCtx {
    pub fn set_universe(&mut self, c: &Value) {
        self.resources.clear();
        self.fn_to_res.clear();
        for r in c["store"].as_array().unwrap() {
            let name = r["name"].as_str().unwrap();
            let kind = r["kind"].as_str().unwrap();
            let id = ident(name);
            let (mime, content, marker) = match kind {
                "fn" => ("application/javascript", format!("function f_{}() {{}}", id), format!("f_{}", id)),
                "template" => ("template", format!("TPL_{}({{{{1}}}},{{{{2}}}})", id), format!("TPL_{}", id)),
                "dep" => ("fn/javascript", format!("function d_{}() {{}}", id), format!("d_{}", id)),
                _ => ("text/plain", format!("other_{}", id), format!("other_{}", id)),
            };
            self.fn_to_res.insert(marker, (name.to_string(), kind.to_string()));
            self.resources.push(mk_resource(name, strs(&r["aliases"]), mime, r["perm"].as_u64().unwrap_or(0) as u8, strs(&r["deps"]), &content));
        }
    }
}

fn build(rules: &[Value], net: &[String], resources: &[Resource], opt: bool) -> Engine {
    // another way to the same engine: the plain constructor over the list text (possible when no list carries a
    // permission); taken for the optimised variant of every case
    if opt && rules.iter().all(|r| r["perm"].as_u64().unwrap_or(0) == 0) {
        let mut lines: Vec<String> = rules.iter().map(|r| r["text"].as_str().unwrap().to_string()).collect();
        lines.extend(net.iter().cloned());
        let mut e = Engine::from_rules(&lines, ParseOptions::default());
        for r in resources.iter().rev() {
            let _ = e.add_resource(r.clone());
        }
        return e;
    }
    let mut fs = FilterSet::new(true);
    for r in rules {
        let opts = ParseOptions { permissions: PermissionMask::from_bits(r["perm"].as_u64().unwrap_or(0) as u8), ..ParseOptions::default() };
        fs.add_filters([r["text"].as_str().unwrap()], opts);
    }
    fs.add_filters(net, ParseOptions::default());
    let mut e = Engine::from_filter_set(fs, opt);
    if opt {
        // the same store, handed over one resource at a time and in the opposite order: the stores of the
        // cosmetic universes hold no colliding names, so the result must be the same (dependencies of a
        // scriptlet are resolved when it is injected, not when it is loaded)
        for r in resources.iter().rev() {
            let _ = e.add_resource(r.clone());
        }
    } else {
        e.use_resources(resources.to_vec());
    }
    e
}

fn set_of(v: impl IntoIterator<Item = String>) -> BTreeSet<String> {
    v.into_iter().collect()
}

fn canon_action(s: &str) -> String {
    // {"selector":[{"type":"css-selector","arg":S}],"action":{"type":K,"arg":A}}
    match serde_json::from_str::<Value>(s) {
        Ok(v) => {
            let sel = v["selector"].as_array().map(|a| {
                a.iter().map(|o| format!("{}:{}", o["type"].as_str().unwrap_or("?"), o["arg"].as_str().unwrap_or(""))).collect::<Vec<_>>().join("|")
            }).unwrap_or_default();
            let kind = v["action"]["type"].as_str().unwrap_or("none").to_string();
            let arg = v["action"]["arg"].as_str().unwrap_or("").to_string();
            json!({"sel": sel, "kind": kind, "arg": arg}).to_string()
        }
        Err(_) => format!("unparsable:{}", s),
    }
}

/// injected_script -> set of invocations {"res":name,"args":[..]} (as canonical strings) and deps lines
fn parse_script(ctx: &CosCtx, script: &str) -> (BTreeSet<String>, BTreeSet<String>) {
    let mut inv = BTreeSet::new();
    let mut deps = BTreeSet::new();
    let lines: Vec<&str> = script.lines().collect();
    let mut i = 0;
    while i < lines.len() {
        if lines[i] == "try {" && i + 2 < lines.len() + 1 {
            let call = lines.get(i + 1).copied().unwrap_or("");
            let (name, inner) = match (call.find('('), call.rfind(')')) {
                (Some(a), Some(b)) if b > a => (&call[..a], &call[a + 1..b]),
                _ => (call, ""),
            };
            match ctx.fn_to_res.get(name) {
                Some((res, style)) if style == "fn" => {
                    let args: Value = serde_json::from_str(&format!("[{}]", inner)).unwrap_or(json!(["<args do not parse as string literals>", inner]));
                    inv.insert(json!({"res": res, "args": args}).to_string());
                }
                Some((res, _)) => {
                    let args: Vec<&str> = if inner.is_empty() { vec![] } else { inner.split(',').filter(|a| !a.starts_with("{{")).collect() };
                    inv.insert(json!({"res": res, "args": args}).to_string());
                }
                None => {
                    inv.insert(json!({"res": format!("?{}", call), "args": []}).to_string());
                }
            }
            i += 3;
        } else {
            if let Some(rest) = lines[i].strip_prefix("function ") {
                let n = rest.split('(').next().unwrap_or("");
                if let Some((res, _)) = ctx.fn_to_res.get(n) {
                    deps.insert(res.clone());
                }
            }
            i += 1;
        }
    }
    (inv, deps)
}

fn expect_set(v: &Value) -> BTreeSet<String> {
    set_of(strs(v))
}

pub fn replay_cos(ctx: &CosCtx, c: &Value, rep: &mut Report) {
    let rules = c["rules"].as_array().unwrap();
    let net = strs(&c["net"]);
    let views = c["views"].as_array().unwrap();
    let texts: Vec<&str> = rules.iter().map(|r| r["text"].as_str().unwrap()).collect();
    // CosParse.tla binding: is the line a rule at all?
    if let Some(want) = c.get("parse_ok").and_then(|a| a.as_array()).and_then(|a| a.get(0)).and_then(|b| b.as_bool()) {
        rep.evaluations += 1;
        let got = guarded(|| adblock::lists::parse_filter(texts[0], true, Default::default()).is_ok());
        if got != Ok(want) {
            rep.mismatch(json!({"what": "cosmetic-parse", "rules": texts, "observed": format!("{:?}", got), "allowed": [format!("Ok({})", want)], "devs": []}));
        }
    }
    let mut any = false;
    for opt in [false, true] {
        let eng = match guarded(|| build(rules, &net, &ctx.resources, opt)) {
            Ok(e) => e,
            Err(p) => {
                rep.mismatch(json!({"what": "cos-build", "rules": texts, "observed": "panic", "panic": p, "devs": []}));
                continue;
            }
        };
        let mut engines: Vec<(&str, Engine)> = vec![];
        match guarded(|| {
            let bytes = eng.serialize_raw().expect("serialize");
            let mut e2 = Engine::new(opt);
            e2.deserialize(&bytes).expect("deserialize own image");
            e2.use_resources(ctx.resources.to_vec());
            e2
        }) {
            Ok(e2) => engines.push(("after-reload", e2)),
            Err(p) => rep.mismatch(json!({"what": "cos-reload", "rules": texts, "observed": "panic", "panic": p, "devs": []})),
        }
        engines.insert(0, ("", eng));
        for (label, eng) in engines.iter() {
            // the per-page scriptlet map is rebuilt (with a fresh hash seed) on every call, so the order
            // in which several injections are resolved varies from call to call: ask several times
            let repeats = if texts.iter().filter(|t| t.contains("+js(")).count() >= 2 { 6 } else { 1 };
            for v in views.iter().cycle().take(views.len() * repeats) {
                let host = v["host"].as_str().unwrap();
                let url = format!("https://{}/", host);
                rep.evaluations += 1;
                let r = match guarded(|| eng.url_cosmetic_resources(&url)) {
                    Ok(r) => r,
                    Err(p) => {
                        rep.mismatch(json!({"what": format!("cos-query{}", label), "rules": texts, "host": host, "observed": "panic", "panic": p, "devs": []}));
                        continue;
                    }
                };
                let unknown: HashSet<String> = strs(&v["unknown"]).into_iter().collect();
                let strip = |s: BTreeSet<String>| -> BTreeSet<String> { s.into_iter().filter(|x| !unknown.contains(x)).collect() };
                let (inv, _deps) = parse_script(ctx, &r.injected_script);
                let exp_scripts: BTreeSet<String> = v["scripts"].as_array().unwrap().iter()
                    .map(|s| json!({"res": s["res"], "args": s["args"]}).to_string()).collect();
                let wire_scripts: BTreeSet<String> = v["scripts_wire"].as_array().unwrap().iter()
                    .map(|s| json!({"res": s["res"], "args": s["args"]}).to_string()).collect();
                let union_scripts: BTreeSet<String> = v["scripts_union"].as_array().unwrap().iter()
                    .map(|s| json!({"res": s["res"], "args": s["args"]}).to_string()).collect();
                let exp_actions: BTreeSet<String> = v["actions"].as_array().unwrap().iter()
                    .map(|a| json!({"sel": format!("css-selector:{}", a["sel"].as_str().unwrap()), "kind": a["kind"], "arg": a["arg"]}).to_string()).collect();
                let obs = [
                    ("hide", strip(set_of(r.hide_selectors.iter().cloned())), strip(expect_set(&v["hide"]))),
                    ("exceptions", set_of(r.exceptions.iter().cloned()), expect_set(&v["exceptions"])),
                    ("actions", set_of(r.procedural_actions.iter().map(|s| canon_action(s))), exp_actions),
                    ("scripts", inv, exp_scripts.clone()),
                ];
                if !r.hide_selectors.is_empty() || !r.procedural_actions.is_empty() || !r.injected_script.is_empty() || !r.exceptions.is_empty() {
                    any = true;
                }
                for (what, got, want) in obs.iter() {
                    if got != want {
                        let (devs, model) = if *what == "scripts" && !label.is_empty() && *got == wire_scripts && wire_scripts != exp_scripts {
                            (json!(["wireDropsScriptPermission"]), json!(got))
                        } else if *what == "scripts" && label.is_empty() && *got == union_scripts && union_scripts != exp_scripts {
                            (json!(["permissionUnionAcrossLists"]), json!(got))
                        } else {
                            (json!([]), Value::Null)
                        };
                        rep.mismatch(json!({"what": format!("cos-{}{}", what, label), "rules": texts, "net": net, "host": host, "opt": opt,
                            "observed": got, "allowed": [want], "devs": devs, "model": model}));
                    }
                }
                if r.generichide != v["ghide"].as_bool().unwrap_or(false) {
                    rep.mismatch(json!({"what": format!("cos-ghide{}", label), "rules": texts, "net": net, "host": host, "opt": opt,
                        "observed": r.generichide, "allowed": [v["ghide"]], "devs": []}));
                }
                // C17: class/id lookups with this page's exception set
                if let Some(cs) = v["classid"].as_array() {
                    for row in cs {
                        for q in row.as_array().unwrap() {
                            rep.evaluations += 1;
                            let classes = strs(&q["classes"]);
                            let ids = strs(&q["ids"]);
                            let got = match guarded(|| eng.hidden_class_id_selectors(&classes, &ids, &r.exceptions)) {
                                Ok(g) => strip(set_of(g)),
                                Err(p) => set_of(vec![format!("panic:{}", p)]),
                            };
                            let want = strip(expect_set(&q["expect"]));
                            if got != want {
                                rep.mismatch(json!({"what": format!("classid{}", label), "rules": texts, "host": host, "opt": opt,
                                    "classes": classes, "ids": ids, "observed": got, "allowed": [want], "devs": []}));
                            }
                            if !got.is_empty() {
                                any = true;
                            }
                        }
                    }
                }
            }
        }
    }
    if any {
        rep.nontrivial += 1;
        if rep.samples.len() < 3 {
            rep.sample(json!({"rules": texts, "net": net, "first_view": views[0]}));
        }
    }
}

/// M3 driver for C18: random argument lists in random spellings through a real engine.
pub fn record_c18(out: &str, seed: u64, n: usize) {
    let mut rng = Rng::new(seed);
    let mut w = LineWriter::create(out);
    let mut ctx = CosCtx::default();
    ctx.set_universe(&json!({"store": [{"name": "free.js", "aliases": ["fr"], "kind": "fn", "perm": 0, "deps": []}]}));
    let pieces: Vec<String> = {
        let mut v: Vec<String> = ["a", "b", "1", " ", "  ", ",", "\"", "'", "`", "\\", "$", "$1", "$$", "$&", "{", "}", "(", ")", "/", "é", "日", "\u{2028}", "\u{2029}", "\u{7f}", "</script>", "\t"]
            .iter().map(|s| s.to_string()).collect();
        for c in 1u8..0x20 {
            if c != b'\n' && c != b'\r' {
                v.push((c as char).to_string());
            }
        }
        v
    };
    let mut nontrivial = 0u64;
    let mut samples = vec![];
    let mut seen = HashSet::new();
    while w.n < n {
        // intended arguments
        let k = if rng.chance(1, 12) { 9 + rng.below(5) } else { 1 + rng.below(3) };
        let mut text = String::from(if rng.chance(1, 4) { "free.js" } else { "free" });
        for _ in 0..k {
            let mut arg = String::new();
            for _ in 0..rng.below(5) {
                arg.push_str(&pieces[rng.below(pieces.len())]);
            }
            // pick a spelling
            let spelled = match rng.below(4) {
                0 if !arg.contains('"') && !arg.ends_with('\\') => format!("\"{}\"", arg),
                1 if !arg.contains('\'') && !arg.ends_with('\\') => format!("'{}'", arg),
                2 if !arg.contains('`') && !arg.ends_with('\\') => format!("`{}`", arg),
                _ => arg.replace(',', "\\,"),
            };
            text.push_str(if rng.chance(1, 2) { ", " } else { "," });
            text.push_str(&spelled);
        }
        if text.ends_with('\\') || text.contains(char::is_whitespace) && text.chars().any(|c| c.is_whitespace() && c != ' ' && c != '\t' && c != '\u{2028}' && c != '\u{2029}' && !c.is_control()) {
            continue;
        }
        // unicode whitespace other than ' ' next to separators is C11's business; keep ' ' only
        if text.chars().any(|c| c.is_whitespace() && c != ' ') {
            continue;
        }
        let rule = format!("a.com##+js({})", text);
        let emitted = match guarded(|| {
            let e = build(&[json!({"text": rule, "perm": 0})], &[], &ctx.resources, false);
            e.url_cosmetic_resources("https://a.com/").injected_script
        }) {
            Ok(script) => {
                let lines: Vec<&str> = script.split('\n').collect();
                match lines.iter().position(|l| *l == "try {") {
                    None => json!({"kind": "none", "args": []}),
                    Some(i) => {
                        // the call may itself contain raw line separators inside literals only if badly escaped
                        let end = lines.iter().rposition(|l| *l == "} catch ( e ) { }").unwrap_or(lines.len());
                        let call = lines[i + 1..end].join("\n");
                        match (call.find('('), call.rfind(')')) {
                            (Some(a), Some(b)) if b > a => match serde_json::from_str::<Vec<String>>(&format!("[{}]", &call[a + 1..b])) {
                                Ok(v) => json!({"kind": "args", "args": v}),
                                Err(_) => json!({"kind": "unparsable", "args": []}),
                            },
                            _ => json!({"kind": "unparsable", "args": []}),
                        }
                    }
                }
            }
            Err(p) => json!({"kind": format!("panic:{}", p), "args": []}),
        };
        if emitted["kind"] == json!("args") && seen.insert(text.clone()) {
            nontrivial += 1;
        }
        let ev = json!({"text": text, "emitted": emitted});
        if samples.len() < 3 && emitted["kind"] == json!("args") {
            samples.push(ev.clone());
        }
        w.put(&ev);
    }
    let events = w.n;
    w.finish();
    println!("{}", json!({"events": events, "nontrivial": nontrivial, "samples": samples}));
}

/// C18, exhaustive permission gate (MC_Perm): one resource mask against all 256 list masks, at three
/// levels: the mask type itself, the resource storage, and an engine fed a rule list with that grant.
pub fn replay_perm(c: &Value, rep: &mut Report) {
    use adblock::lists::{FilterSet, ParseOptions};
    use adblock::resources::{PermissionMask, ResourceStorage};
    let rp = c["rp"].as_u64().unwrap() as u8;
    let allowed = c["allowed"].as_object().unwrap();
    let res = crate::net::mk_resource("s.js", vec!["s".into()], "application/javascript", rp, vec![], "function s() {}");
    let storage = ResourceStorage::from_resources(vec![res.clone()]);
    for (k, want) in allowed.iter() {
        let lp: u8 = k.parse().unwrap();
        let want = want.as_bool().unwrap();
        rep.evaluations += 1;
        if want {
            rep.nontrivial += 1;
        }
        let direct = PermissionMask::from_bits(rp).is_injectable_by(PermissionMask::from_bits(lp));
        let via_storage = guarded(|| !storage.get_scriptlet_resources([("s, 1", PermissionMask::from_bits(lp))]).is_empty());
        let via_engine = guarded(|| {
            let mut fs = FilterSet::new(true);
            fs.add_filters(["a.com##+js(s, 1)"], ParseOptions { permissions: PermissionMask::from_bits(lp), ..Default::default() });
            let mut e = adblock::Engine::from_filter_set(fs, true);
            e.use_resources(vec![res.clone()]);
            !e.url_cosmetic_resources("https://a.com/").injected_script.is_empty()
        });
        let obs = json!({"mask": direct, "storage": via_storage.clone().unwrap_or(false), "engine": via_engine.clone().unwrap_or(false),
                         "panic": via_storage.is_err() || via_engine.is_err()});
        if direct != want || via_storage != Ok(want) || via_engine != Ok(want) {
            rep.mismatch(json!({"what": "permission-gate", "resource_mask": rp, "list_mask": lp, "observed": obs,
                                "allowed": [{"mask": want, "storage": want, "engine": want, "panic": false}], "devs": []}));
        }
    }
    // a scriptlet whose dependency carries its own requirement
    for (dk, row) in c["deps"].as_object().unwrap().iter() {
        let dp: u8 = dk.parse().unwrap();
        let dep = crate::net::mk_resource("d.fn", vec![], "fn/javascript", dp, vec![], "function d() {}");
        let top = crate::net::mk_resource("s.js", vec!["s".into()], "application/javascript", rp, vec!["d.fn".into()], "function s() {}");
        let storage = ResourceStorage::from_resources(vec![top, dep]);
        for (k, want) in row.as_object().unwrap().iter() {
            let lp: u8 = k.parse().unwrap();
            let want = want.as_bool().unwrap();
            rep.evaluations += 1;
            let got = guarded(|| !storage.get_scriptlet_resources([("s, 1", PermissionMask::from_bits(lp))]).is_empty());
            if got != Ok(want) {
                rep.mismatch(json!({"what": "permission-gate-dependency", "resource_mask": rp, "dependency_mask": dp, "list_mask": lp,
                                    "observed": format!("{:?}", got), "allowed": [format!("Ok({})", want)], "devs": []}));
            }
        }
    }
}
