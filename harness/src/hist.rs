//! Histories (C06/C07/C05-explicit-optimise): a TLC-generated sequence of public mutator calls
//! replayed on ONE long-lived Blocker / Engine; after every query step the whole probe battery is
//! compared with the Ideal answers for the current (rules, tags).
use crate::net::{csp_json, verdict_json, NetCtx};
use crate::util::*;
use adblock::blocker::{Blocker, BlockerOptions};
use adblock::filters::network::NetworkFilter;
use adblock::lists::{parse_filters, ParseOptions};
use adblock::regex_manager::RegexManagerDiscardPolicy;
use adblock::request::Request;
use adblock::resources::ResourceStorage;
use adblock::Engine;
use serde_json::{json, Value};
use std::time::Duration;

enum Obj {
    B(Blocker, ResourceStorage),
    E(Engine, Option<Vec<u8>>),
}

fn sorted_set(v: &Value) -> Value {
    let mut a: Vec<String> = strs(v);
    a.sort();
    a.dedup();
    json!(a)
}

impl Obj {
    fn tags(&mut self, op: &str, tags: &[String]) {
        let t: Vec<&str> = tags.iter().map(|s| s.as_str()).collect();
        match self {
            Obj::B(b, _) => match op {
                "use" => b.use_tags(&t),
                "enable" => b.enable_tags(&t),
                _ => b.disable_tags(&t),
            },
            Obj::E(e, _) => match op {
                "use" => e.use_tags(&t),
                "enable" => e.enable_tags(&t),
                _ => e.disable_tags(&t),
            },
        }
    }
    fn enabled(&self) -> Vec<String> {
        let mut v = match self {
            Obj::B(b, _) => b.tags_enabled(),
            Obj::E(e, _) => ["t1", "t2", "t3"].iter().filter(|t| e.tag_exists(t)).map(|s| s.to_string()).collect(),
        };
        v.sort();
        v
    }
    fn discard(&mut self) {
        match self {
            Obj::B(b, _) => {
                let ids: Vec<u64> = b.get_regex_debug_info().regex_data.iter().map(|e| e.id).collect();
                for id in ids {
                    b.discard_regex(id);
                }
            }
            Obj::E(e, _) => {
                let ids: Vec<u64> = e.get_regex_debug_info().regex_data.iter().map(|e| e.id).collect();
                for id in ids {
                    e.discard_regex(id);
                }
            }
        }
    }
    fn aggressive(&mut self) {
        let p = RegexManagerDiscardPolicy { cleanup_interval: Duration::from_nanos(1), discard_unused_time: Duration::from_nanos(0) };
        match self {
            Obj::B(b, _) => b.set_regex_discard_policy(p),
            Obj::E(e, _) => e.set_regex_discard_policy(p),
        }
    }
    fn query(&self, req: &Request) -> (Value, Value) {
        match self {
            Obj::B(b, r) => (verdict_json(&b.check(req, r)), csp_json(&b.get_csp_directives(req))),
            Obj::E(e, _) => (verdict_json(&e.check_network_request(req)), csp_json(&e.get_csp_directives(req))),
        }
    }
}

pub fn replay_hist(ctx: &NetCtx, c: &Value, rep: &mut Report) {
    let mode = c["mode"].as_str().unwrap();
    let init = strs(&c["init"]);
    let ops = c["ops"].as_array().unwrap();
    let reqs: Vec<Option<Request>> = ctx.reqs.iter().map(|q| Request::new(&q.url, &q.src, &q.alias).ok()).collect();
    let mut any = false;
    // configurations: optimise off/on x normal / aggressive discard policy
    for (opt, aggressive) in [(false, false), (true, false), (false, true)] {
        let built = guarded(|| match mode {
            "blocker" => {
                let (nf, _) = parse_filters(&init, true, ParseOptions::default());
                Obj::B(Blocker::new(nf, &BlockerOptions { enable_optimizations: opt }), ResourceStorage::default())
            }
            _ => Obj::E(Engine::from_rules_parametrised(&init, ParseOptions::default(), true, opt), None),
        });
        let mut obj = match built {
            Ok(o) => o,
            Err(p) => {
                rep.mismatch(json!({"what": "hist-build", "observed": "panic", "panic": p, "devs": []}));
                continue;
            }
        };
        if aggressive {
            obj.aggressive();
        }
        for (step, op) in ops.iter().enumerate() {
            let name = op["op"].as_str().unwrap();
            let mut add_outcome: Option<bool> = None;
            let mut add_filter_outcome: Option<&str> = None;
            let r = guarded(|| {
                match name {
                    "use" | "enable" | "disable" => obj.tags(name, &strs(&op["tags"])),
                    "add" => {
                        if let Obj::B(b, _) = &mut obj {
                            if let Ok(f) = NetworkFilter::parse(op["rule"].as_str().unwrap(), true, Default::default()) {
                                add_filter_outcome = Some(match b.add_filter(f) {
                                    Ok(()) => "ok",
                                    Err(adblock::blocker::BlockerError::FilterExists) => "exists",
                                    Err(_) => "other-error",
                                });
                            }
                        }
                    }
                    "optimize" => {
                        if let Obj::B(b, _) = &mut obj {
                            b.optimize()
                        }
                    }
                    "useres" => {
                        let names = strs(&op["res"]);
                        let rs: Vec<_> = names.iter().filter_map(|n| ctx.resources.iter().find(|r| &r.name == n).cloned()).collect();
                        match &mut obj {
                            Obj::E(e, _) => e.use_resources(rs),
                            Obj::B(_, st) => *st = ResourceStorage::from_resources(rs),
                        }
                    }
                    "addres" => {
                        let n = op["res"].as_str().unwrap();
                        let r = ctx.resources.iter().find(|r| r.name == n).cloned().expect("resource of the pool");
                        let ok = match &mut obj {
                            Obj::E(e, _) => e.add_resource(r).is_ok(),
                            Obj::B(_, st) => st.add_resource(r).is_ok(),
                        };
                        add_outcome = Some(ok);
                    }
                    "badload" => {
                        // a refused load (here: a complete image cut in half) changes nothing
                        if let Obj::E(e, _) = &mut obj {
                            let img = Engine::from_rules_parametrised(&["||refused.example^".to_string(), "/refused/*$tag=t1".to_string()], ParseOptions::default(), true, false).serialize_raw().unwrap();
                            let _ = e.deserialize(&img[..img.len() / 2]);
                        }
                    }
                    "discard" => obj.discard(),
                    "serialize" => {
                        if let Obj::E(e, blob) = &mut obj {
                            *blob = e.serialize_raw().ok();
                        }
                    }
                    "deserialize" => {
                        if let Obj::E(e, blob) = &mut obj {
                            if let Some(b) = blob.clone() {
                                let _ = e.deserialize(&b);
                            }
                        }
                    }
                    _ => {}
                }
            });
            if let Err(p) = r {
                rep.mismatch(json!({"what": "hist-op", "history": ops_brief(ops, step), "opt": opt, "aggressive": aggressive,
                                    "observed": "panic", "panic": p, "devs": []}));
                break;
            }
            if let Some(out) = add_filter_outcome {
                let exists = op.get("exists").and_then(|b| b.as_bool()).unwrap_or(false);
                // on an optimised engine the duplicate test is best effort
                let allowed: Vec<&str> = if !exists { vec!["ok"] } else if opt { vec!["exists", "ok"] } else { vec!["exists"] };
                rep.evaluations += 1;
                if !allowed.contains(&out) {
                    rep.mismatch(json!({"what": "add_filter-outcome", "mode": mode, "init": init, "history": ops_brief(ops, step), "opt": opt,
                                        "observed": out, "allowed": allowed, "devs": []}));
                }
            }
            if let Some(ok) = add_outcome {
                rep.evaluations += 1;
                if json!(ok) != op["ok"] {
                    rep.mismatch(json!({"what": "add_resource-outcome", "mode": mode, "history": ops_brief(ops, step), "observed": ok,
                                        "allowed": [op["ok"]], "devs": []}));
                }
            }
            // C07: the enabled set after every operation
            let want = sorted_set(&op["now"]);
            let got = json!(obj.enabled());
            rep.evaluations += 1;
            if want != got {
                rep.mismatch(json!({"what": "tags", "mode": mode, "init": init, "history": ops_brief(ops, step), "opt": opt,
                                    "aggressive": aggressive, "observed": got, "allowed": [want], "devs": []}));
            }
            if name == "q" {
                if aggressive {
                    std::thread::sleep(Duration::from_micros(5));
                }
                let v = op["v"].as_array().unwrap();
                let csp = op["csp"].as_array().unwrap();
                for (qi, req) in reqs.iter().enumerate() {
                    let req = match req {
                        Some(r) => r,
                        None => continue,
                    };
                    rep.evaluations += 1;
                    let obs = match guarded(|| obj.query(req)) {
                        Ok(o) => o,
                        Err(p) => (json!({"panic": p}), json!("panic")),
                    };
                    if obs.0["matched"] == json!(true) || obs.0["exception"] == json!(true) || obs.1 != json!([]) {
                        any = true;
                    }
                    if !allowed_has(&v[qi], &obs.0) {
                        rep.mismatch(json!({"what": "hist-verdict", "mode": mode, "init": init, "history": ops_brief(ops, step),
                            "opt": opt, "aggressive": aggressive, "req": ctx.reqs[qi].url, "observed": obs.0, "allowed": v[qi], "devs": []}));
                    }
                    if !csp[qi].as_array().unwrap().iter().any(|a| sorted_set(a) == obs.1) {
                        rep.mismatch(json!({"what": "hist-csp", "mode": mode, "init": init, "history": ops_brief(ops, step),
                            "opt": opt, "aggressive": aggressive, "req": ctx.reqs[qi].url, "observed": obs.1, "allowed": csp[qi], "devs": []}));
                    }
                }
            }
        }
    }
    if any {
        rep.nontrivial += 1;
        if rep.samples.len() < 3 {
            rep.sample(json!({"mode": mode, "init": init, "history": ops_brief(ops, ops.len() - 1)}));
        }
    }
}

fn ops_brief(ops: &[Value], upto: usize) -> Value {
    json!(ops[..=upto]
        .iter()
        .map(|o| {
            let n = o["op"].as_str().unwrap_or("");
            match n {
                "use" | "enable" | "disable" => format!("{}{:?}", n, strs(&o["tags"])),
                "add" => format!("add({})", o["rule"].as_str().unwrap_or("")),
                "useres" => format!("use_resources{:?}", strs(&o["res"])),
                "addres" => format!("add_resource({})", o["res"].as_str().unwrap_or("")),
                other => other.to_string(),
            }
        })
        .collect::<Vec<_>>())
}
