//! C11: list parsing (relational clauses through M2, totality through M3).
use crate::util::*;
use adblock::lists::{parse_filter, parse_filters, read_list_metadata, FilterFormat, FilterSet, ParseOptions, RuleTypes};
use adblock::request::Request;
use adblock::Engine;
use serde_json::{json, Value};

fn opts(format: &str, rt: &str) -> ParseOptions {
    ParseOptions {
        format: if format == "hosts" { FilterFormat::Hosts } else { FilterFormat::Standard },
        rule_types: match rt { "network" => RuleTypes::NetworkOnly, "cosmetic" => RuleTypes::CosmeticOnly, _ => RuleTypes::All },
        ..ParseOptions::default()
    }
}

pub fn engine_battery(e: &Engine) -> String {
    let mut out = String::new();
    for (u, s, t) in [
        ("https://ab.ba/", "https://ab.ba/", "document"), ("https://ab.ba/x", "https://x.com/", "script"), ("https://ab.ba/ok/", "https://x.com/", "script"),
        ("https://s.ab.ba/i", "https://x.com/", "image"), ("https://x.com/ab-", "https://x.com/", "script"), ("https://x.com/ab-", "https://ab.ba/", "image"),
        ("https://x.com/q", "https://ab.ba/", "script"), ("https://www.x.com/q", "https://ab.ba/", "script"), ("https://y.com/127.0.0.1 ab.ba", "", "script"),
        ("https://localhost/", "", "script"), ("https://ab/", "", "script"), ("https://y.com/ab.ba/x", "", "script"), ("https://y.com/a", "", "script"),
    ] {
        if let Ok(r) = Request::new(u, s, t) {
            let v = e.check_network_request(&r);
            out += &format!("{}{}{}|", v.matched as u8, v.important as u8, v.exception.is_some() as u8);
        }
    }
    for u in ["https://ab.ba/", "https://x.com/", "https://s.ab.ba/"] {
        let c = e.url_cosmetic_resources(u);
        let mut h: Vec<_> = c.hide_selectors.iter().cloned().collect();
        h.sort();
        let mut x: Vec<_> = c.exceptions.iter().cloned().collect();
        x.sort();
        out += &format!("{:?}{:?}{}|", h, x, c.injected_script.len());
        let mut s = e.hidden_class_id_selectors(["g", "x"], ["i"], &c.exceptions);
        s.sort();
        out += &format!("{:?}|", s);
    }
    out
}

fn resources() -> Vec<adblock::resources::Resource> {
    vec![crate::net::mk_resource("sc1.js", vec!["sc1".into()], "application/javascript", 0, vec![], "function sc1() {}")]
}

fn meta_json(m: &adblock::lists::FilterListMetadata) -> Value {
    let exp = match &m.expires {
        Some(adblock::lists::ExpiresInterval::Days(d)) => format!("days:{}", d),
        Some(adblock::lists::ExpiresInterval::Hours(h)) => format!("hours:{}", h),
        None => String::new(),
    };
    json!({"Title": m.title.clone().unwrap_or_default(), "Homepage": m.homepage.clone().unwrap_or_default(),
           "Redirect": m.redirect.clone().unwrap_or_default(), "Expires": exp})
}

pub fn replay_list(c: &Value, rep: &mut Report) {
    let lines = strs(&c["lines"]);
    let reference = strs(&c["reference"]);
    let (f, rt) = (c["format"].as_str().unwrap(), c["rule_types"].as_str().unwrap());
    let o = opts(f, rt);
    rep.evaluations += 1;
    // list metadata: from the head of the text (read_list_metadata) and from all lines (add_filter_list)
    if let Some(want_all) = c.get("meta_all") {
        let text = lines.join("\n");
        match guarded(|| (meta_json(&read_list_metadata(&text)), meta_json(&FilterSet::new(true).add_filter_list(&text, o)))) {
            Ok((head, all)) => {
                if &head != &c["meta_head"] {
                    rep.mismatch(json!({"what": "list-metadata-head", "lines": lines, "observed": head, "allowed": [c["meta_head"]], "devs": []}));
                }
                if &all != want_all {
                    rep.mismatch(json!({"what": "list-metadata-all", "lines": lines, "observed": all, "allowed": [want_all], "devs": []}));
                }
            }
            Err(p) => rep.mismatch(json!({"what": "list-metadata", "lines": lines, "observed": "panic", "panic": p, "devs": []})),
        }
    }
    let r = guarded(|| {
        // three ways of loading the same text
        let (nf, cf) = parse_filters(&lines, true, o);
        let mut fs1 = FilterSet::new(true);
        fs1.add_filter_list(&lines.join("\n"), o);
        let mut fs2 = FilterSet::new(true);
        for l in &lines {
            let _ = fs2.add_filter(l, o);
        }
        let mut e1 = Engine::from_filter_set(fs1, true);
        let mut e2 = Engine::from_filter_set(fs2, false);
        let mut fsr = FilterSet::new(true);
        fsr.add_filters(&reference, ParseOptions::default());
        let mut er = Engine::from_filter_set(fsr, true);
        e1.use_resources(resources());
        e2.use_resources(resources());
        er.use_resources(resources());
        (nf.len(), cf.len(), engine_battery(&e1), engine_battery(&e2), engine_battery(&er))
    });
    match r {
        Err(p) => rep.mismatch(json!({"what": "list", "lines": lines, "format": f, "rule_types": rt, "observed": "panic", "panic": p, "devs": []})),
        Ok((nn, nc, b1, b2, br)) => {
            let want = (c["nnet"].as_u64().unwrap() as usize, c["ncos"].as_u64().unwrap() as usize);
            if (nn, nc) != want {
                rep.mismatch(json!({"what": "list-counts", "lines": lines, "format": f, "rule_types": rt,
                    "observed": {"network": nn, "cosmetic": nc}, "allowed": [{"network": want.0, "cosmetic": want.1}], "devs": []}));
            }
            if b1 != br || b2 != br {
                rep.mismatch(json!({"what": "list-engine", "lines": lines, "format": f, "rule_types": rt, "reference": reference,
                    "observed": {"add_filter_list": b1, "add_filter": b2}, "allowed": [br], "devs": []}));
            }
            if nn + nc > 0 {
                rep.nontrivial += 1;
                if rep.samples.len() < 3 {
                    rep.sample(json!({"lines": lines, "format": f, "rule_types": rt, "reference": reference}));
                }
            }
        }
    }
}

/// M3 driver (totality): grammar-aware mutation of rules, multi-byte characters at every offset.
pub fn record_c11(out: &str, seed: u64, n: usize) {
    let mut rng = Rng::new(seed);
    let mut w = LineWriter::create(out);
    let base: Vec<String> = {
        let mut v: Vec<String> = [
            "||example.com^$script,domain=a.com|~b.com", "@@||example.com/ok^$document", "/banner/*/img^$third-party", "|https://x.com/a|",
            "||x.com^$redirect=noop.js:10", "||x.com^$csp=script-src 'none'", "||x.com^$removeparam=utm", "/re[0-9]+x/$important,match-case",
            "example.com##.ad", "example.com,~sub.example.com##.ad > .x", "example.*#@#.ad", "##.generic", "###id[x=\"y\"]",
            "example.com##.s:style(color: red)", "example.com##.r:remove()", "example.com##.a:remove-attr(onclick)", "example.com##.c:remove-class(x)",
            "example.com##+js(set-constant, a.b, false)", "example.com#@#+js()", "example.com##+js(sc, \"q,r\", 's', `t`)", "example.com#?#.x:has-text(ad)",
            "127.0.0.1 example.com", "0.0.0.0 example.com # comment", "example.com", "! Title: x", "! Expires: 4 days", "[Adblock Plus 2.0]",
            "example.com#%#//scriptlet('x')", "example.com$$script[tag-content=\"x\"]", "||example.com^$badfilter", "||example.com^$tag=t,important",
            "example.com##^script:has-text(x)", "||bücher.example^", "пример.рф##.x", "*$image,domain=a.com", "||x.com^$from=a.com", "a$b$c",
        ].iter().map(|s| s.to_string()).collect();
        for p in ["/repo/data/easylist.to/easylist/easylist.txt", "/repo/data/uBlockOrigin/filters.txt"] {
            if let Ok(t) = std::fs::read_to_string(p) {
                let ls: Vec<&str> = t.lines().collect();
                for _ in 0..150 {
                    v.push(ls[rng.below(ls.len())].to_string());
                }
            }
        }
        v
    };
    let inserts = ["é", "日", "\u{a0}", "\u{2003}", "\u{3000}", "\u{1f600}", "\u{200b}", "\u{fffd}", "#", "$", "@", "|", "~", ",", "*", "^", "(", ")", "\\", "\"", "'", " ", "\t", "##", "#@#", "+js(", ":style(", ".*", "$$", "\u{85}", "\u{1680}"];
    let mut ok = 0u64;
    let mut samples = vec![];
    let good = ["||good-one.com^", "good-two.com##.keep"];
    // phase 1 (exhaustive): every multi-byte / whitespace character slid across every character
    // offset of every hand-written rule shape
    let mut queue: Vec<String> = vec![];
    for b in base.iter().take(37) {
        let chars: Vec<char> = b.chars().collect();
        // single characters, and short runs of blanks of mixed width (a parser that trims one view of the line
        // and slices another by byte offsets only goes wrong when the widths differ)
        for ins in ["é", "日", "\u{a0}", "\u{2003}", "\u{3000}", "\u{1f600}", "\u{85}", "\u{200b}",
                    "\u{a0} \u{a0}", "  \u{3000}", "\u{a0}\u{a0}", " \u{2003} "] {
            for at in 0..=chars.len() {
                let mut line: String = chars[..at].iter().collect();
                line.push_str(ins);
                line.extend(chars[at..].iter());
                queue.push(line);
            }
        }
    }
    queue.reverse();
    let slid = queue.len();
    while w.n < n || !queue.is_empty() {
        let b = &base[rng.below(base.len())];
        let chars: Vec<char> = b.chars().collect();
        if chars.is_empty() {
            continue;
        }
        let mut line: String;
        match if queue.is_empty() { rng.below(6) } else { 99 } {
            99 => line = queue.pop().unwrap(),
            0 => line = b.clone(),
            1 | 2 => {
                // insert one piece at a random char offset
                let at = rng.below(chars.len() + 1);
                line = chars[..at].iter().collect();
                line.push_str(inserts[rng.below(inserts.len())]);
                line.extend(chars[at..].iter());
            }
            3 => {
                // replace a char
                let at = rng.below(chars.len().max(1));
                line = chars.iter().take(at).collect();
                line.push_str(inserts[rng.below(inserts.len())]);
                line.extend(chars.iter().skip(at + 1));
            }
            4 => {
                // truncate / splice two rules
                let at = rng.below(chars.len() + 1);
                line = chars[..at].iter().collect();
                let o: Vec<char> = base[rng.below(base.len())].chars().collect();
                let from = rng.below(o.len() + 1);
                line.extend(o[from..].iter());
            }
            _ => {
                line = String::new();
                for _ in 0..rng.below(12) {
                    line.push_str(inserts[rng.below(inserts.len())]);
                    if rng.chance(1, 2) && !chars.is_empty() {
                        line.push(chars[rng.below(chars.len())]);
                    }
                }
            }
        }
        let line = line.replace('\n', " ").replace('\r', " ");
        for (f, rt) in [("standard", "all"), ("hosts", "all"), ("standard", "cosmetic"), ("hosts", "network")] {
            let o = opts(f, rt);
            let out = match guarded(|| parse_filter(&line, true, o)) {
                Ok(Ok(adblock::lists::ParsedFilter::Network(_))) => "net",
                Ok(Ok(adblock::lists::ParsedFilter::Cosmetic(_))) => "cos",
                Ok(Err(_)) => "rej",
                Err(_) => "panic",
            };
            // line independence + engine usability on the real engine: [good, line, good] vs [good, good] when rejected
            let indep = match guarded(|| {
                let with: Vec<&str> = vec![good[0], &line, good[1]];
                let mut fs = FilterSet::new(true);
                fs.add_filter_list(&with.join("\n"), o);
                let e = Engine::from_filter_set(fs, true);
                let b = engine_battery(&e);
                let mut fs0 = FilterSet::new(true);
                fs0.add_filter_list(&good.join("\n"), o);
                (b, engine_battery(&Engine::from_filter_set(fs0, true)))
            }) {
                Ok((a, b)) => if out == "rej" { if a == b { "same" } else { "differs" } } else { "n/a" },
                Err(_) => "panic",
            };
            if out != "rej" {
                ok += 1;
            }
            let ev = json!({"ev": "line", "line": line, "format": f, "rule_types": rt, "outcome": out, "independence": indep});
            if samples.len() < 3 && out == "cos" {
                samples.push(ev.clone());
            }
            w.put(&ev);
        }
        // metadata: the 1024-byte cut must land on a char boundary whatever precedes it
        if rng.chance(1, 10) {
            let pad = 1000 + rng.below(40);
            let text = format!("! Title: {}\n{}{}\n! Expires: 1 day\n", "x".repeat(rng.below(20)), "é日\u{1f600}".repeat(pad / 9), line);
            let m = match guarded(|| { let _ = read_list_metadata(&text); }) { Ok(_) => "ok", Err(_) => "panic" };
            w.put(&json!({"ev": "metadata", "line": line, "format": "", "rule_types": "", "outcome": m, "independence": "n/a"}));
        }
    }
    let events = w.n;
    w.finish();
    println!("{}", json!({"events": events, "nontrivial": ok, "samples": samples, "counters": {"slid_exhaustively": slid}}));
}

/// MC_Classify: which parser a line is handed to, under each rule-type option
pub fn replay_classify(c: &Value, rep: &mut Report) {
    use adblock::lists::{parse_filter, FilterParseError, ParsedFilter};
    let line = c["line"].as_str().unwrap();
    for (name, rt) in [("all", RuleTypes::All), ("network", RuleTypes::NetworkOnly), ("cosmetic", RuleTypes::CosmeticOnly)] {
        rep.evaluations += 1;
        let got = match guarded(|| parse_filter(line, true, ParseOptions { rule_types: rt, ..Default::default() })) {
            Ok(Ok(ParsedFilter::Network(_))) | Ok(Err(FilterParseError::Network(_))) => "net".to_string(),
            Ok(Ok(ParsedFilter::Cosmetic(_))) | Ok(Err(FilterParseError::Cosmetic(_))) => "cos".to_string(),
            Ok(Err(FilterParseError::Unsupported)) => "unsupported".to_string(),
            Ok(Err(FilterParseError::Empty)) => "empty".to_string(),
            Err(p) => format!("panic:{}", p),
        };
        let want = c["cls"][name].as_str().unwrap();
        if want == "net" || want == "cos" {
            rep.nontrivial += 1;
        }
        if got != want {
            rep.mismatch(json!({"what": "line-class", "line": line, "rule_types": name, "observed": got, "allowed": [want], "devs": []}));
        }
    }
}
