//! C06/C07/C05/C08 at scale: long random histories on one long-lived object (M3).
use crate::net::{csp_json, verdict_json};
use crate::util::*;
use adblock::blocker::{Blocker, BlockerOptions};
use adblock::filters::network::{NetworkFilter, NetworkFilterMaskHelper, NetworkMatchable};
use adblock::lists::ParseOptions;
use adblock::regex_manager::{RegexManager, RegexManagerDiscardPolicy};
use adblock::request::Request;
use adblock::resources::ResourceStorage;
use adblock::Engine;
use serde_json::{json, Value};
use std::time::Duration;

enum Obj {
    B(Blocker, ResourceStorage),
    E(Engine, Option<Vec<u8>>),
}

fn master(rng: &mut Rng) -> (Vec<String>, Vec<(String, String)>) {
    let mut rules = vec![];
    let mut urls = vec![];
    let tags = ["t1", "t2", "t3"];
    // tagged rules of every regex-ness: '*'/'^' rules, full-regex rules without '*' or '^', plain
    for (ti, t) in tags.iter().enumerate() {
        for k in 0..14 {
            let (r, u) = match k % 4 {
                0 => (format!("/tg{}/z{:02}^*x$tag={}", ti, k, t), format!("https://a.example.com/tg{}/z{:02}/qx", ti, k)),
                1 => (format!("/tg{}r{:02}x[0-9]+\\.js/$script,tag={}", ti, k, t), format!("https://a.example.com/tg{}r{:02}x77.js", ti, k)),
                2 => (format!("/tg{}/p{:02}.$tag={}", ti, k, t), format!("https://a.example.com/tg{}/p{:02}.gif", ti, k)),
                _ => (format!("|https://b.example.com/tg{}/*/e{:02}|$tag={}", ti, k, t), format!("https://b.example.com/tg{}/mid/e{:02}", ti, k)),
            };
            rules.push(r);
            urls.push((u, "script".to_string()));
        }
        rules.push(format!("@@/tg{}/p00.$tag={}", ti, tags[(ti + 1) % 3]));
        rules.push(format!("/tg{}/z00^$important,tag={}", ti, t));
        rules.push(format!("||c.example.com^$csp=d{},tag={}", ti, t));
    }
    urls.push(("https://c.example.com/".to_string(), "document".to_string()));
    // two tags whose rules are ALL full regular expressions without '*' or '^' (they own a compiled regex although
    // the rule is not flagged as a wildcard rule)
    for t in ["fr1", "fr2"] {
        for k in 0..16 {
            rules.push(format!("/zz{}n{}x[0-9]+/$tag={}", t, k, t));
            urls.push((format!("https://a.example.com/zz{}n{}x42", t, k), "script".to_string()));
        }
    }
    // untagged regex rules with one anchor each
    for k in 0..10 {
        rules.push(format!("|https://u.example.com/l{:02}/*.js", k));
        urls.push((format!("https://u.example.com/l{:02}/a.js?x", k), "script".to_string()));
        rules.push(format!("/u{:02}^*.gif|", k));
        urls.push((format!("https://v.example.com/u{:02}/i.gif", k), "image".to_string()));
    }
    // fusable groups of threshold sizes sharing one bucket and mask
    for (f, n) in [65usize, 129, 33].iter().enumerate() {
        for k in 0..*n {
            rules.push(format!("/grp{}w/slot-{:03}", f, k));
            // every member has its URL: which member a size-threshold defect loses depends on rule-id order
            urls.push((format!("https://g.example.com/grp{}w/slot-{:03}.js", f, k), "script".to_string()));
        }
    }
    // late full-regex rules (blocker mode: never part of the initial engine, added by the scripted interlude right
    // after every tag has been switched off, when the rules of the tag just freed are the most recent holes)
    for k in 0..32 {
        rules.push(format!("/rs{}x[0-9]+/", k));
        urls.push((format!("https://a.example.com/rs{}x42", k), "script".to_string()));
    }
    rules.push("/q?*utm=$removeparam=utm".to_string());
    urls.push(("https://a.example.com/q?a=1&utm=2".to_string(), "xhr".to_string()));
    // a deterministic shuffle so that ids do not follow construction order
    for i in (1..rules.len()).rev() {
        rules.swap(i, rng.below(i + 1));
    }
    (rules, urls)
}

fn attrs(f: &NetworkFilter, line: &str) -> Value {
    let mkind = if f.is_csp() { "csp" } else if f.is_removeparam() { "removeparam" } else if f.is_redirect() {
        if f.also_block_redirect() { "redirect" } else { "redirect-rule" } } else { "none" };
    let tag = line.rsplit('$').next().and_then(|o| o.split(',').find_map(|x| x.strip_prefix("tag="))).unwrap_or("");
    json!({"line": line, "exc": f.is_exception(), "important": f.is_important(), "ghide": f.is_generic_hide(), "tag": tag,
           "mkind": mkind, "mval": if mkind == "csp" || mkind == "removeparam" { f.modifier_option.clone().unwrap_or_default() } else { String::new() }})
}

pub fn record_c06(out: &str, seed: u64, n_ops: usize, mode: &str) {
    let mut rng = Rng::new(seed);
    let mut w = LineWriter::create(out);
    let (lines, urls) = master(&mut rng);
    let parsed: Vec<NetworkFilter> = lines.iter().map(|l| NetworkFilter::parse(l, true, Default::default()).expect("master rule parses")).collect();
    // the engine starts with ~70% of the master list; the rest can be added later (blocker mode)
    // removeparam rules are not part of the serialized image (open finding): keep them out in engine mode
    let loadable: Vec<usize> = (0..lines.len()).filter(|i| mode == "blocker" || !lines[*i].contains("removeparam")).collect();
    // the threshold groups are always loaded completely, so that their size at optimisation time is exact
    let initial: Vec<usize> = loadable.iter().cloned().filter(|i| mode == "engine" || ((i % 10 < 7 || lines[*i].starts_with("/grp")) && !lines[*i].starts_with("/rs"))).collect();
    let mut reserve: Vec<usize> = loadable.iter().cloned().filter(|i| !initial.contains(i)).collect();
    let init_lines: Vec<String> = initial.iter().map(|i| lines[*i].clone()).collect();
    let opt = seed % 2 == 0;
    let mut obj = match mode {
        "blocker" => {
            let nf: Vec<NetworkFilter> = init_lines.iter().map(|l| NetworkFilter::parse(l, true, Default::default()).unwrap()).collect();
            Obj::B(Blocker::new(nf, &BlockerOptions { enable_optimizations: opt }), ResourceStorage::default())
        }
        _ => Obj::E(Engine::from_rules_parametrised(&init_lines, ParseOptions::default(), true, opt), None),
    };
    w.put(&json!({"op": "header", "mode": mode, "optimize": opt,
                  "rules": parsed.iter().zip(lines.iter()).map(|(f, l)| attrs(f, l)).collect::<Vec<_>>(),
                  "initial": initial.iter().map(|i| i + 1).collect::<Vec<_>>()}));
    // engine mode: images of OTHER engines (different subsets of the master list, different order), so that
    // successive loads put different rules at recycled addresses
    let mut others: Vec<(Vec<usize>, Vec<u8>)> = vec![];
    if mode == "engine" {
        for _ in 0..3 {
            let mut ids: Vec<usize> = loadable.iter().cloned().filter(|_| rng.chance(3, 5)).collect();
            for i in (1..ids.len()).rev() {
                ids.swap(i, rng.below(i + 1));
            }
            let ls: Vec<String> = ids.iter().map(|i| lines[*i].clone()).collect();
            let img = Engine::from_rules_parametrised(&ls, ParseOptions::default(), true, rng.chance(1, 2)).serialize_raw().unwrap();
            others.push((ids, img));
        }
    }
    let reqs: Vec<(Request, String, String)> = urls.iter().filter_map(|(u, t)| Request::new(u, "https://s.example.org/", t).ok().map(|r| (r, u.clone(), t.clone()))).collect();
    let focus: Vec<usize> = reqs.iter().enumerate().filter(|(_, (_, u, _))| u.contains("/zz") || u.contains("/rs")).map(|(i, _)| i).collect();
    let all_tags = ["t1", "t2", "t3", "fr1", "fr2"];
    // scripted interludes: (operation, tags) executed before the next random choice.  The "regex-only tag dance":
    // only fr1 on - queries - nothing on - only fr2 on - queries (rules freed and re-allocated between compilations)
    let mut script: std::collections::VecDeque<(usize, Vec<String>)> = Default::default();
    let mut recent: Vec<String> = vec![];
    let mut nontrivial = 0u64;
    let mut samples = vec![];
    let mut ops_done = 0usize;
    // reload bursts (engine mode): after a load, half of the time, [queries, load, queries] follow with no tag
    // operation in between - successive loads put different rules at the addresses of the generation before
    let mut burst = 0u32;
    while ops_done < n_ops {
        ops_done += 1;
        let forced = burst > 0;
        let mut scripted_tags: Option<Vec<String>> = None;
        let r = if let Some((op, ts)) = script.pop_front() { scripted_tags = Some(ts); op }
                else if forced { burst -= 1; if burst % 2 == 0 { 99 } else { 30 } }
                else { rng.below(100) };
        if scripted_tags.is_none() && !forced && rng.chance(1, 40) {
            let (a, b) = if rng.chance(1, 2) { ("fr1", "fr2") } else { ("fr2", "fr1") };
            if mode == "blocker" && rng.chance(1, 2) {
                // ... and its variant: only one tag on - queries - nothing on - late regex rules added - queries
                script.extend([(0usize, vec![a.to_string()]), (99, vec![]), (96, vec![]), (99, vec![])]);
            } else {
                script.extend([(0usize, vec![a.to_string()]), (99, vec![]), (0, vec![]), (0, vec![b.to_string()]), (99, vec![])]);
            }
        }
        if r == 96 && scripted_tags.is_some() {
            if let Obj::B(b, _) = &mut obj {
                // sixteen at a time, parsed beforehand: nothing else is allocated between the release of the tagged
                // rules and the allocation of these
                let mut batch: Vec<(usize, NetworkFilter)> = vec![];
                while batch.len() < 16 {
                    match reserve.iter().position(|i| lines[*i].starts_with("/rs")) {
                        Some(pos) => { let i = reserve.swap_remove(pos); batch.push((i, NetworkFilter::parse(&lines[i], true, Default::default()).unwrap())); }
                        None => break,
                    }
                }
                let refs: Vec<&str> = vec![];
                b.use_tags(&refs);
                let outcomes: Vec<(usize, bool)> = batch.into_iter().map(|(i, f)| (i, b.add_filter(f).is_ok())).collect();
                w.put(&json!({"op": "use", "tags": refs, "panic": false}));
                for (i, ok) in outcomes {
                    recent.push(format!("add({})", lines[i]));
                    w.put(&if ok { json!({"op": "add", "id": i + 1}) } else { json!({"op": "add-rejected", "id": i + 1}) });
                }
            }
            continue;
        }
        let pick_tags = |rng: &mut Rng| -> Vec<String> { all_tags.iter().filter(|_| rng.chance(1, 2)).map(|s| s.to_string()).collect() };
        let mut log = |w: &mut LineWriter, recent: &mut Vec<String>, v: Value, brief: String| {
            recent.push(brief);
            if recent.len() > 12 {
                recent.remove(0);
            }
            w.put(&v);
        };
        if r < 18 {
            let scripted = scripted_tags.is_some();
            let ts = match scripted_tags.take() { Some(t) => t, None => pick_tags(&mut rng) };
            let refs: Vec<&str> = ts.iter().map(|s| s.as_str()).collect();
            let name = if scripted { "use" } else { ["use", "enable", "disable"][rng.below(3)] };
            let res = guarded(|| match (&mut obj, name) {
                (Obj::B(b, _), "use") => b.use_tags(&refs),
                (Obj::B(b, _), "enable") => b.enable_tags(&refs),
                (Obj::B(b, _), _) => b.disable_tags(&refs),
                (Obj::E(e, _), "use") => e.use_tags(&refs),
                (Obj::E(e, _), "enable") => e.enable_tags(&refs),
                (Obj::E(e, _), _) => e.disable_tags(&refs),
            });
            log(&mut w, &mut recent, json!({"op": name, "tags": ts, "panic": res.is_err()}), format!("{}{:?}", name, ts));
        } else if r < 24 {
            match &mut obj {
                Obj::B(b, _) => {
                    let ids: Vec<u64> = b.get_regex_debug_info().regex_data.iter().map(|e| e.id).collect();
                    for id in ids { b.discard_regex(id); }
                }
                Obj::E(e, _) => {
                    let ids: Vec<u64> = e.get_regex_debug_info().regex_data.iter().map(|e| e.id).collect();
                    for id in ids { e.discard_regex(id); }
                }
            }
            log(&mut w, &mut recent, json!({"op": "discard"}), "discard".into());
        } else if r < 28 {
            let aggressive = rng.chance(1, 2);
            let p = if aggressive { RegexManagerDiscardPolicy { cleanup_interval: Duration::from_nanos(1), discard_unused_time: Duration::from_nanos(0) } } else { RegexManagerDiscardPolicy::default() };
            match &mut obj { Obj::B(b, _) => b.set_regex_discard_policy(p), Obj::E(e, _) => e.set_regex_discard_policy(p) }
            log(&mut w, &mut recent, json!({"op": "policy", "aggressive": aggressive}), format!("policy({})", aggressive));
        } else if r < 36 {
            match &mut obj {
                Obj::B(b, _) => {
                    if rng.chance(1, 3) {
                        let _ = guarded(|| b.optimize());
                        log(&mut w, &mut recent, json!({"op": "optimize"}), "optimize".into());
                    } else if !reserve.is_empty() {
                        let i = reserve.swap_remove(rng.below(reserve.len()));
                        let f = NetworkFilter::parse(&lines[i], true, Default::default()).unwrap();
                        let ok = b.add_filter(f).is_ok();
                        if ok {
                            log(&mut w, &mut recent, json!({"op": "add", "id": i + 1}), format!("add({})", lines[i]));
                        } else {
                            log(&mut w, &mut recent, json!({"op": "add-rejected", "id": i + 1}), "add-rejected".into());
                        }
                    }
                }
                Obj::E(e, blob) => {
                    if !forced && rng.chance(1, 2) {
                        burst = 3;
                    }
                    if !forced && rng.chance(1, 6) {
                        // a load that is refused (empty input, header only, a truncated image) leaves rules AND tags alone
                        let (ids, img) = &others[rng.below(others.len())];
                        let bad: &[u8] = match rng.below(3) { 0 => &[], 1 => &img[..4.min(img.len())], _ => &img[..img.len() / 2] };
                        if e.deserialize(bad).is_err() {
                            log(&mut w, &mut recent, json!({"op": "load-refused", "bytes": bad.len()}), format!("load refused ({} bytes)", bad.len()));
                        } else {
                            // accepted after all: bring model and engine back in step with a complete load
                            let ok = e.deserialize(img).is_ok();
                            log(&mut w, &mut recent, json!({"op": if ok { "load" } else { "load-failed" }, "ids": ids.iter().map(|i| i + 1).collect::<Vec<_>>()}), "load(other image)".into());
                        }
                    } else if rng.chance(1, 3) || (forced && blob.is_none()) {
                        let (ids, img) = &others[rng.below(others.len())];
                        let ok = e.deserialize(img).is_ok();
                        log(&mut w, &mut recent, json!({"op": if ok { "load" } else { "load-failed" }, "ids": ids.iter().map(|i| i + 1).collect::<Vec<_>>()}), "load(other image)".into());
                    } else if !forced && (blob.is_none() || rng.chance(1, 3)) {
                        *blob = e.serialize_raw().ok();
                        log(&mut w, &mut recent, json!({"op": "serialize"}), "serialize".into());
                    } else {
                        let b = blob.clone().unwrap();
                        let ok = e.deserialize(&b).is_ok();
                        log(&mut w, &mut recent, json!({"op": if ok { "deserialize" } else { "deserialize-failed" }}), "deserialize".into());
                    }
                }
            }
        } else {
            // a batch of queries
            // a scripted batch asks for every URL of the regex-only rules; a random one for 2-13 URLs
            let picks: Vec<usize> = if scripted_tags.is_some() { focus.clone() } else { (0..(2 + rng.below(12))).map(|_| rng.below(reqs.len())).collect() };
            for qi in picks {
                let (req, url, ty) = &reqs[qi];
                let mut rm = RegexManager::default();
                let hits: Vec<usize> = parsed.iter().enumerate().filter(|(_, f)| f.matches(req, &mut rm)).map(|(i, _)| i + 1).collect();
                let obs = guarded(|| match &obj {
                    Obj::B(b, rs) => (verdict_json(&b.check(req, rs)), csp_json(&b.get_csp_directives(req)), { let mut t = b.tags_enabled(); t.sort(); t }),
                    Obj::E(e, _) => (verdict_json(&e.check_network_request(req)), csp_json(&e.get_csp_directives(req)),
                                     all_tags.iter().filter(|t| e.tag_exists(t)).map(|s| s.to_string()).collect()),
                });
                let obs = match obs {
                    Ok((v, c, t)) => json!({"matched": v["matched"], "important": v["important"], "exception": v["exception"], "rewritten": v["rewritten"], "csp": c, "tags": t}),
                    Err(p) => json!({"matched": format!("panic:{}", p), "important": false, "exception": false, "rewritten": "", "csp": [], "tags": []}),
                };
                if !hits.is_empty() {
                    nontrivial += 1;
                }
                let ev = json!({"op": "query", "url": url, "type": ty, "scheme": "https", "tp": req.is_third_party, "hits": hits, "obs": obs, "recent": recent});
                if samples.len() < 2 && hits.len() >= 1 {
                    samples.push(json!({"recent_history": recent, "url": url, "hits": hits.len()}));
                }
                w.put(&ev);
            }
        }
    }
    let events = w.n;
    w.finish();
    println!("{}", json!({"events": events, "nontrivial": nontrivial, "samples": samples, "counters": {"operations": n_ops, "rules": lines.len(), "rule_addresses_recycled": crate::ser::RECYCLED.load(std::sync::atomic::Ordering::Relaxed)}}));
}

