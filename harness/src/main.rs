//! verif-harness: binds the TLA+ specification in /verif/spec to the real adblock-rust code.
//!   replay <cases.jsonl> <report.json>   spec -> impl (M2): execute TLC-generated cases
//!   record <driver> <out.ndjson> [args]  impl -> spec (M3): run a driver, log events for TLC
mod cb;
mod conc;
mod corpus;
mod cos;
mod hist;
mod lists;
mod longhist;
mod regexcache;
mod net;
mod req;
mod scale;
mod ser;
mod util;

#[global_allocator]
static GLOBAL: ser::Counting = ser::Counting;

fn main() {
    util::quiet_panics();
    let args: Vec<String> = std::env::args().collect();
    if args.len() < 2 {
        eprintln!("usage: verif-harness replay|record ...");
        std::process::exit(2);
    }
    match args[1].as_str() {
        "replay" => {
            if args.len() < 4 {
                eprintln!("usage: verif-harness replay <cases.jsonl> <report.json>");
                std::process::exit(2);
            }
            let cases = util::read_lines(&args[2]);
            let mut rep = util::Report::default();
            let mut ctx = net::Ctx::default();
            let mut nctx = net::NetCtx::default();
            let mut cctx = cos::CosCtx::default();
            let rctx = req::ReqCtx::default();
            for c in cases.iter() {
                let k = c["k"].as_str().unwrap_or("");
                match k {
                    "universe" => {
                        if c.get("urls").is_some() {
                            ctx.set_universe(c)
                        } else {
                            nctx.set_universe(c)
                        }
                    }
                    "universe-cos" => cctx.set_universe(c),
                    "cos" => cos::replay_cos(&cctx, c, &mut rep),
                    "perm" => cos::replay_perm(c, &mut rep),
                    "req" => req::replay_req(&rctx, c, &mut rep),
                    "list" => lists::replay_list(c, &mut rep),
                    "classify" => lists::replay_classify(c, &mut rep),
                    "net" => net::replay_net(&nctx, c, &mut rep),
                    "hist" => hist::replay_hist(&nctx, c, &mut rep),
                    "c02" => net::replay_c02(&ctx, c, &mut rep),
                    other => {
                        eprintln!("harness: unknown case kind {:?}", other);
                        std::process::exit(2);
                    }
                }
            }
            rep.write(&args[3]);
        }
        "scale" => scale::run(&args[2], &args[3]),
        "c19seq" => conc::c19seq(&args[2]),
        #[cfg(not(feature = "unsync"))]
        "c19" => {
            let seed: u64 = args.get(3).and_then(|s| s.parse().ok()).unwrap_or(1);
            let threads: usize = args.get(4).and_then(|s| s.parse().ok()).unwrap_or(8);
            let per: usize = args.get(5).and_then(|s| s.parse().ok()).unwrap_or(300);
            conc::record_c19(&args[2], seed, threads, per, args.get(6).map(|s| s.as_str()).unwrap_or(""));
        }
        "c09child" => {
            ser::c09_child(&args[2], args.get(3).map(|s| s == "1").unwrap_or(false), args.get(4).map(|s| s == "1").unwrap_or(true));
        }
        "record" => {
            if args.len() < 4 {
                eprintln!("usage: verif-harness record <driver> <out.ndjson> [seed] [n]");
                std::process::exit(2);
            }
            let seed: u64 = args.get(4).and_then(|s| s.parse().ok()).unwrap_or(1);
            let n: usize = args.get(5).and_then(|s| s.parse().ok()).unwrap_or(1000);
            match args[2].as_str() {
                "c02" => net::record_c02(&args[3], seed, n),
                "c09" => {
                    let children: usize = args.get(6).and_then(|s| s.parse().ok()).unwrap_or(2);
                    let wd = args.get(7).cloned().unwrap_or_else(|| "/verif/.work".to_string());
                    ser::record_c09(&args[3], seed, n, children, &wd)
                }
                "c10" => ser::record_c10(&args[3], seed, n > 1),
                "c18" => cos::record_c18(&args[3], seed, n),
                "c12" => req::record_c12(&args[3], seed, n),
                "c11" => lists::record_c11(&args[3], seed, n),
                "c06" => longhist::record_c06(&args[3], seed, n, args.get(6).map(|s| s.as_str()).unwrap_or("blocker")),
                "c01" => corpus::record_c01(&args[3], seed, n, args.get(6).and_then(|s| s.parse().ok()).unwrap_or(40)),
                "regex" => regexcache::record_regex(&args[3], seed, n, args.get(6).map(|s| s.as_str()).unwrap_or(""),
                                                    args.get(7).and_then(|s| s.parse().ok()).unwrap_or(2000)),
                "c20" => cb::record_c20(&args[3], seed, n, args.get(6).map(|s| s.as_str()).unwrap_or("")),
                other => {
                    eprintln!("harness: unknown driver {:?}", other);
                    std::process::exit(2);
                }
            }
        }
        other => {
            eprintln!("harness: unknown subcommand {:?}", other);
            std::process::exit(2);
        }
    }
}
