//! Network-rule side: C01-C05, C13-C15.
use crate::util::*;
use adblock::filters::network::{NetworkFilter, NetworkMatchable};
use adblock::regex_manager::RegexManager;
use adblock::request::Request;
use serde_json::{json, Value};

#[derive(Default)]
pub struct Ctx {
    pub urls: Vec<String>,
}
impl Ctx {
    pub fn set_universe(&mut self, c: &Value) {
        self.urls = strs(&c["urls"]);
    }
}

/// The public matcher, asked twice with one RegexManager: first use (compile), then again after
/// every compiled regex was discarded (recompile).  Both answers are observations.
pub fn match_twice(filter: &NetworkFilter, req: &Request) -> (Value, Value) {
    use adblock::regex_manager::RegexManagerDiscardPolicy;
    let mut m = RegexManager::default();
    m.set_discard_policy(RegexManagerDiscardPolicy {
        cleanup_interval: std::time::Duration::from_nanos(1),
        discard_unused_time: std::time::Duration::from_nanos(0),
    });
    let a = match guarded(|| filter.matches(req, &mut m)) {
        Ok(b) => json!(b),
        Err(_) => json!("panic"),
    };
    let b = match guarded(|| {
        m.update_time(); // cleanup: everything unused for >= 0ns is discarded
        filter.matches(req, &mut m)
    }) {
        Ok(b) => json!(b),
        Err(_) => json!("panic"),
    };
    (a, b)
}

/// C02: one pattern against the URL universe, through NetworkFilter::parse + matches.
pub fn replay_c02(ctx: &Ctx, c: &Value, rep: &mut Report) {
    let rule = c["rule"].as_str().unwrap();
    let allowed = c["allowed"].as_array().unwrap();
    let model = bools(&c["model"]);
    let devs = c["devs"].as_array().unwrap();
    let parsed = guarded(|| NetworkFilter::parse(rule, true, Default::default()));
    let filter = match parsed {
        Err(p) => {
            rep.mismatch(json!({"rule": rule, "observed": "panic", "panic": p, "devs": []}));
            return;
        }
        Ok(Err(_)) => {
            rep.skipped += 1;
            rep.count("parse_rejected");
            return;
        }
        Ok(Ok(f)) => f,
    };
    // binding of the Tokens model (Impl layer): the rule's token groups as hashes
    if let Some(groups) = c.get("tokens").and_then(|t| t.as_array()) {
        let mut model: Vec<Vec<u64>> = groups.iter().map(|g| {
            let mut v: Vec<u64> = strs(g).iter().map(|t| adblock::utils::fast_hash(t)).collect();
            v.sort();
            v.dedup();
            v
        }).collect();
        model.sort();
        let mut real: Vec<Vec<u64>> = filter.get_tokens().into_iter().map(|mut v| { v.sort(); v.dedup(); v }).collect();
        real.sort();
        if model != real {
            rep.drift(json!({"rule": rule, "what": "tokens", "model": groups, "real_groups": real.len(), "real_tokens": real.iter().map(|g| g.len()).sum::<usize>()}));
        }
    }
    let mut any = false;
    // the same rule behind the token index: an engine holding only this rule must find it for exactly the URLs
    // its own matcher accepts (supported schemes only), with and without optimisation
    let listed = adblock::lists::parse_filter(rule, true, ParseOptions::default()).is_ok();      // one-character lines are comments
    let engines: Vec<Engine> = if !listed { vec![] } else { [false, true].iter()
        .filter_map(|opt| guarded(|| Engine::from_rules_parametrised([rule], ParseOptions::default(), true, *opt)).ok()).collect() };
    for (i, url) in ctx.urls.iter().enumerate() {
        let req = match Request::new(url, "", "script") {
            Ok(r) => r,
            Err(_) => {
                rep.skipped += 1;
                continue;
            }
        };
        rep.evaluations += 1;
        let (obs_v, obs_again) = match_twice(&filter, &req);
        if req.is_supported {
            for (k, e) in engines.iter().enumerate() {
                if let Ok(m) = guarded(|| e.check_network_request(&req).matched) {
                    if json!(m) != obs_v {
                        let folded = (rule == "|http://" || rule == "|https://") && (url.starts_with("ws://") || url.starts_with("wss://"));
                        let obs = json!({"engine": m, "matcher": obs_v});
                        rep.mismatch(json!({"what": "index-vs-matcher", "rule": rule, "url": url, "opt": k == 1,
                                            "observed": obs, "allowed": [{"engine": obs_v, "matcher": obs_v}],
                                            "devs": if folded { json!(["wsMatchesHttpOnlyRule"]) } else { json!([]) },
                                            "model": if folded { obs.clone() } else { Value::Null }}));
                    }
                }
            }
        }
        if obs_again != obs_v {
            rep.mismatch(json!({"what": "recompiled", "rule": rule, "url": url, "observed": obs_again, "allowed": allowed[i],
                                "first_answer": obs_v, "devs": []}));
        }
        if obs_v == json!(true) {
            any = true;
        }
        if !allowed_has(&allowed[i], &obs_v) {
            rep.mismatch(json!({"rule": rule, "url": url, "observed": obs_v, "allowed": allowed[i],
                                "model": model[i], "devs": devs[i]}));
        } else if obs_v != json!(model[i]) {
            rep.drift(json!({"rule": rule, "url": url, "observed": obs_v, "model": model[i]}));
        }
    }
    if any {
        rep.nontrivial += 1;
    }
    if rep.samples.len() < 4 && any {
        rep.sample(json!({"rule": rule, "allowed": allowed, "urls": ctx.urls}));
    }
}

// ---------------------------------------------------------------------------------------------
// generators shared by the M3 drivers

pub const WORDS: &[&str] = &["ab", "ba", "ads", "ad", "img", "x1", "cdn", "track", "q", "banner", "a", "foo", "bar", "load", "s"];
pub const TLDS: &[&str] = &["com", "net", "co.uk", "io", "org"];

pub struct GenUrl {
    pub url: String,
    pub hs: usize, // 1-based inclusive char positions of the host inside url
    pub he: usize,
    pub host: String,
}

pub fn gen_host(rng: &mut Rng) -> String {
    let mut labels: Vec<String> = vec![];
    let n = 1 + rng.below(3);
    for _ in 0..n {
        let mut w = rng.pick(WORDS).to_string();
        if rng.chance(1, 4) {
            w = format!("{}{}", rng.pick(&["x", "a", "b", "my-"]), w);
        }
        labels.push(w);
    }
    labels.push(rng.pick(TLDS).to_string());
    let mut host = labels.join(".");
    if rng.chance(1, 5) {
        // repeat a suffix so that anchor texts occur twice
        let tail = labels[labels.len().saturating_sub(2)..].join(".");
        host = format!("{}.{}", host, tail);
    }
    host
}

pub fn gen_path(rng: &mut Rng) -> String {
    let mut p = String::new();
    let segs = 1 + rng.below(4);
    for _ in 0..segs {
        p.push('/');
        if rng.chance(1, 8) {
            continue;
        }
        let mut w = rng.pick(WORDS).to_string();
        if rng.chance(1, 3) {
            w = format!("{}{}", rng.pick(&["l", "up", "x", "_", "-", "2"]), w);
        }
        if rng.chance(1, 6) {
            w = w.to_uppercase();
        }
        p.push_str(&w);
        if rng.chance(1, 4) {
            p.push_str(rng.pick(&[".js", ".gif", "-1", "_x", ".ab.ba", "~"]));
        }
    }
    if rng.chance(1, 3) {
        p.push('?');
        let n = 1 + rng.below(3);
        for i in 0..n {
            if i > 0 {
                p.push('&');
            }
            p.push_str(rng.pick(WORDS));
            if rng.chance(4, 5) {
                p.push('=');
                p.push_str(rng.pick(&["1", "ab", "x%20y", "", "http://ads.net/x"]));
            }
        }
    }
    p
}

pub fn gen_url(rng: &mut Rng) -> GenUrl {
    let scheme = rng.pick(&["https", "https", "http", "wss", "ws"]);
    let host = gen_host(rng);
    let mut url = format!("{}://", scheme);
    if rng.chance(1, 12) {
        url.push_str(&format!("{}@", if rng.chance(1, 2) { host.clone() } else { "u:p".to_string() }));
    }
    let hs = url.len() + 1;
    url.push_str(&host);
    let he = url.len();
    if rng.chance(1, 10) {
        url.push_str(":8080");
    }
    url.push_str(&gen_path(rng));
    GenUrl { url, hs, he, host }
}

/// A pattern derived from a URL so that matches are frequent, then perturbed.
pub fn gen_pattern(rng: &mut Rng, u: &GenUrl) -> (String, String, bool) {
    let chars: Vec<char> = u.url.chars().collect();
    let n = chars.len();
    let left = rng.pick(&["none", "none", "pipe", "dpipe", "dpipe", "dpipe"]);
    let right = rng.chance(1, 6);
    let maxlen = 14;
    let (mut i, mut j);
    match left {
        "pipe" => {
            i = if rng.chance(3, 4) { 0 } else { rng.below(n) };
            j = (i + 1 + rng.below(maxlen)).min(n);
        }
        "dpipe" => {
            // start at a label start (mostly) inside the host
            let mut starts = vec![u.hs - 1];
            for k in (u.hs - 1)..u.he {
                if chars[k] == '.' && k + 1 < u.he {
                    starts.push(k + 1);
                }
            }
            i = if rng.chance(7, 8) { rng.pick(&starts) } else { u.hs - 1 + rng.below(u.he - u.hs + 1) };
            // end: mostly at host end, or beyond
            j = match rng.below(6) {
                0 | 1 => u.he,
                2 => (u.he + 1 + rng.below(8)).min(n),
                3 => (i + 1 + rng.below(maxlen)).min(n),
                _ => (u.he + rng.below(5)).min(n),
            };
            if j <= i {
                j = (i + 1).min(n);
            }
        }
        _ => {
            i = rng.below(n);
            j = (i + 1 + rng.below(maxlen)).min(n);
        }
    }
    if right && rng.chance(2, 3) {
        j = n;
        if j - i > maxlen && left == "none" {
            i = j - 1 - rng.below(maxlen);
        }
    }
    if j > i + 24 {
        j = i + 24;
    }
    let mut body: Vec<char> = chars[i..j].to_vec();
    // perturbations
    let mut stars = 0;
    let k = rng.below(4);
    for _ in 0..k {
        if body.len() < 2 {
            break;
        }
        match rng.below(5) {
            0 if stars < 2 => {
                // replace an internal span by '*'
                let a = 1 + rng.below(body.len() - 1);
                let b = (a + rng.below(4)).min(body.len() - 1);
                if b > a || rng.chance(1, 2) {
                    body.splice(a..b, std::iter::once('*'));
                    stars += 1;
                }
            }
            1 => {
                // separators -> '^'
                for c in body.iter_mut() {
                    if matches!(*c, '/' | '?' | '&' | '=' | ':') && rng.chance(1, 2) {
                        *c = '^';
                    }
                }
            }
            2 => {
                if !matches!(body.last(), Some('^') | Some('*')) {
                    body.push('^');
                }
            }
            3 => {
                // change case of a letter
                let a = rng.below(body.len());
                if body[a].is_ascii_lowercase() {
                    body[a] = body[a].to_ascii_uppercase();
                } else {
                    body[a] = body[a].to_ascii_lowercase();
                }
            }
            _ => {
                // damage one character so that near-misses are exercised
                let a = rng.below(body.len());
                body[a] = rng.pick(&['a', 'b', '.', '/', 'x', '-']);
            }
        }
    }
    (left.to_string(), body.into_iter().collect(), right)
}

pub fn print_pattern(left: &str, body: &str, right: bool) -> String {
    format!("{}{}{}", match left { "pipe" => "|", "dpipe" => "||", _ => "" }, body, if right { "|" } else { "" })
}

/// M3 driver for C02
pub fn record_c02(out: &str, seed: u64, n: usize) {
    let mut rng = Rng::new(seed);
    let mut w = LineWriter::create(out);
    let mut nontrivial = 0u64;
    let mut samples = vec![];
    let mut skipped = 0u64;
    let mut seen = std::collections::HashSet::new();
    while w.n < n {
        let u = gen_url(&mut rng);
        let req = match Request::new(&u.url, "", "script") {
            Ok(r) => r,
            Err(_) => { skipped += 1; continue; }
        };
        if req.url != u.url || req.hostname != u.host {
            skipped += 1;
            continue;
        }
        for _ in 0..4 {
            let (left, body, right) = gen_pattern(&mut rng, &u);
            if body.is_empty() || body.contains('$') || body.contains('#') || body.starts_with('|') || body.ends_with('|')
                || body.starts_with("@@") || body.starts_with('!') || body.starts_with('[') {
                continue;
            }
            let rule = print_pattern(&left, &body, right);
            let filter = match guarded(|| NetworkFilter::parse(&rule, true, Default::default())) {
                Ok(Ok(f)) => f,
                Ok(Err(_)) => { skipped += 1; continue; }
                Err(p) => {
                    w.put(&json!({"rule": rule, "left": left, "body": body, "right": right, "url": u.url, "hs": u.hs, "he": u.he, "obs": "panic", "panic": p}));
                    continue;
                }
            };
            let (obs, again) = match_twice(&filter, &req);
            let obs = if again != obs { json!("unstable") } else if obs == json!(true) { json!("T") } else if obs == json!(false) { json!("F") } else { obs };
            if obs == json!("T") && seen.insert(rule.clone()) {
                nontrivial += 1;
            }
            // the same rule behind the token index (an engine holding only this rule): "T"/"F", or "-" when the
            // request is not eligible (unsupported scheme) or the line is not a rule for the list parser
            let eng = if req.is_supported && adblock::lists::parse_filter(&rule, true, ParseOptions::default()).is_ok() {
                match guarded(|| Engine::from_rules_parametrised([&rule], ParseOptions::default(), true, rng.0 % 2 == 0).check_network_request(&req).matched) {
                    Ok(true) => "T", Ok(false) => "F", Err(_) => "panic",
                }
            } else { "-" };
            let ev = json!({"rule": rule, "left": left, "body": body, "right": right, "url": u.url, "hs": u.hs, "he": u.he, "obs": obs, "eng": eng});
            if samples.len() < 3 && obs == json!("T") {
                samples.push(ev.clone());
            }
            w.put(&ev);
        }
    }
    let events = w.n;
    w.finish();
    println!("{}", json!({"events": events, "nontrivial": nontrivial, "samples": samples, "counters": {"skipped": skipped}}));
}

// ---------------------------------------------------------------------------------------------
// generic engine-level case ("net"): a rule list + tag set against the request universe

use adblock::lists::ParseOptions;
use adblock::resources::{MimeType, PermissionMask, Resource, ResourceType};
use adblock::Engine;
use base64::{engine::Engine as _, prelude::BASE64_STANDARD};

pub struct UReq {
    pub url: String,
    pub alias: String,
    pub src: String,
}

#[derive(Default)]
pub struct NetCtx {
    pub reqs: Vec<UReq>,
    pub resources: Vec<Resource>,
}

pub fn mk_resource(name: &str, aliases: Vec<String>, kind: &str, perm: u8, deps: Vec<String>, content: &str) -> Resource {
    let k = match kind {
        "template" => ResourceType::Template,
        other => ResourceType::Mime(MimeType::from(other)),
    };
    Resource {
        name: name.to_string(),
        aliases,
        kind: k,
        content: BASE64_STANDARD.encode(content),
        dependencies: deps,
        permission: PermissionMask::from_bits(perm),
    }
}

impl NetCtx {
    pub fn set_universe(&mut self, c: &Value) {
        self.reqs = c["reqs"]
            .as_array()
            .unwrap()
            .iter()
            .map(|r| UReq {
                url: r["url"].as_str().unwrap().to_string(),
                alias: r["alias"].as_str().unwrap().to_string(),
                src: r["src"].as_str().unwrap().to_string(),
            })
            .collect();
        self.resources = c["res"]
            .as_array()
            .map(|a| {
                a.iter()
                    .map(|r| {
                        let name = r["name"].as_str().unwrap();
                        mk_resource(name, strs(&r["aliases"]), r["kind"].as_str().unwrap(),
                                    r["perm"].as_u64().unwrap_or(0) as u8, vec![], r["content"].as_str().unwrap_or(name))
                    })
                    .collect()
            })
            .unwrap_or_default();
    }
}

/// data:<mime>;base64,<b64(name)>  ->  name
pub fn redirect_name(r: &Option<String>) -> String {
    match r {
        None => String::new(),
        Some(s) => match s.find(";base64,") {
            Some(i) => BASE64_STANDARD
                .decode(&s[i + 8..])
                .ok()
                .and_then(|b| String::from_utf8(b).ok())
                .unwrap_or_else(|| format!("?{}", s)),
            None => format!("?{}", s),
        },
    }
}

pub fn verdict_json(r: &adblock::blocker::BlockerResult) -> Value {
    json!({
        "matched": r.matched,
        "important": r.important,
        "exception": r.exception.is_some(),
        "redirect": redirect_name(&r.redirect),
        "rewritten": r.rewritten_url.clone().unwrap_or_default(),
    })
}

pub fn csp_json(c: &Option<String>) -> Value {
    match c {
        None => json!([]),
        Some(s) => {
            let mut v: Vec<&str> = s.split(',').collect();
            v.sort();
            v.dedup();
            json!(v)
        }
    }
}

fn sorted_set(v: &Value) -> Value {
    let mut a: Vec<String> = strs(v);
    a.sort();
    a.dedup();
    json!(a)
}

pub fn build_engine(rules: &[String], tags: &[String], resources: &[Resource], opt: bool) -> Engine {
    let mut e = Engine::from_rules_parametrised(rules, ParseOptions::default(), true, opt);
    let t: Vec<&str> = tags.iter().map(|s| s.as_str()).collect();
    e.use_tags(&t);
    e.use_resources(resources.to_vec());
    e
}

pub fn replay_net(ctx: &NetCtx, c: &Value, rep: &mut Report) {
    let rules = strs(&c["rules"]);
    let tags = strs(&c["tags"]);
    let v_allowed = c["v"].as_array().unwrap();
    let csp_allowed = c["csp"].as_array().unwrap();
    let hits_allowed = c.get("hits").and_then(|h| h.as_array());
    // attribution data: requests (1-based index q) where a named deviation of the model applies
    let mut dev: std::collections::HashMap<usize, &Value> = Default::default();
    if let Some(a) = c.get("dev").and_then(|d| d.as_array()) {
        for d in a {
            dev.insert(d["q"].as_u64().unwrap() as usize - 1, d);
        }
    }
    let mut hdev: std::collections::HashMap<(usize, usize), &Value> = Default::default();
    if let Some(a) = c.get("hdev").and_then(|d| d.as_array()) {
        for d in a {
            hdev.insert((d["q"].as_u64().unwrap() as usize - 1, d["i"].as_u64().unwrap() as usize - 1), d);
        }
    }
    // Options.tla binding: is the line a rule at all?
    if let Some(want) = c.get("parse_ok").and_then(|b| b.as_bool()) {
        rep.evaluations += 1;
        let got = guarded(|| adblock::lists::parse_filter(&rules[0], true, ParseOptions::default()).is_ok());
        if got != Ok(want) {
            rep.mismatch(json!({"what": "option-parse", "rules": rules, "observed": format!("{:?}", got), "allowed": [format!("Ok({})", want)], "devs": []}));
        }
    }
    let mut nontrivial = false;
    let reload = c.get("reload").and_then(|m| m.as_bool()).unwrap_or(false);
    let wire = c.get("wire").and_then(|w| w.as_array()).and_then(|a| a.get(0));
    for opt in [false, true] {
        let eng = match guarded(|| build_engine(&rules, &tags, &ctx.resources, opt)) {
            Ok(e) => e,
            Err(p) => {
                rep.mismatch(json!({"rules": rules, "tags": tags, "opt": opt, "observed": "panic", "panic": p, "devs": []}));
                continue;
            }
        };
        let mut engines: Vec<(&str, Engine)> = vec![];
        if reload {
            // C08: a second engine loaded from the serialized image of the first; the caller's
            // enabled tags are set on it before loading (and must survive the load)
            let loaded = guarded(|| {
                let bytes = eng.serialize_raw().expect("serialize");
                // the receiving engine is configured the OTHER way (optimisation flag): nothing of the receiver but its
                // enabled tags may show in the loaded engine
                let mut e2 = Engine::new(!opt);
                let t: Vec<&str> = tags.iter().map(|s| s.as_str()).collect();
                e2.use_tags(&t);
                e2.deserialize(&bytes).expect("deserialize of own image");
                e2.use_resources(ctx.resources.to_vec());
                e2
            });
            // the same image loaded into a USED engine: it already holds regex rules whose compiled forms are
            // cached, and it loads another image first, so that the rules of the image under test are allocated
            // where earlier generations lived.  The loaded engine must not inherit anything from them.
            let loaded_used = guarded(|| {
                // the image is written by an engine on which NO tag is enabled: what a loaded engine honours are
                // the tags of the engine that loads, not those of the engine that wrote the image
                let bytes = build_engine(&rules, &[], &ctx.resources, opt).serialize_raw().expect("serialize");
                let decoy: Vec<String> = (0..8).map(|i| format!("/zq{}*decoy{}^", i, i)).collect();
                let decoy2: Vec<String> = (0..8).map(|i| format!("|https://other{}.example/*zz{}", i, i)).collect();
                let mut e3 = Engine::from_rules_parametrised(&decoy, ParseOptions::default(), true, opt);
                let t: Vec<&str> = tags.iter().map(|s| s.as_str()).collect();
                e3.use_tags(&t);
                for i in 0..8 {
                    let r = Request::new(&format!("https://d.example/zq{}/x/decoy{}/", i, i), "https://s.example/", "script").unwrap();
                    let _ = e3.check_network_request(&r);
                }
                let other = Engine::from_rules_parametrised(&decoy2, ParseOptions::default(), true, opt).serialize_raw().expect("serialize");
                e3.deserialize(&other).expect("deserialize of another image");
                for i in 0..8 {
                    let r = Request::new(&format!("https://other{}.example/a/zz{}", i, i), "https://s.example/", "script").unwrap();
                    let _ = e3.check_network_request(&r);
                }
                e3.deserialize(&bytes).expect("deserialize of own image");
                e3.use_resources(ctx.resources.to_vec());
                e3
            });
            match loaded_used {
                Ok(e3) => engines.push(("after-reload-into-used-engine", e3)),
                Err(p) => rep.mismatch(json!({"what": "reload-used", "rules": rules, "tags": tags, "opt": opt, "observed": "panic", "panic": p, "devs": []})),
            }
            match loaded {
                Ok(e2) => engines.push(("after-reload", e2)),
                Err(p) => rep.mismatch(json!({"what": "reload", "rules": rules, "tags": tags, "opt": opt, "observed": "panic", "panic": p, "devs": []})),
            }
        }
        // the other ways to the same engine: the plain constructors (non-debug rules; debug rules) and a FilterSet
        // filled line by line.  They must give the verdicts the parametrised constructor gives.
        {
            let t: Vec<&str> = tags.iter().map(|s| s.as_str()).collect();
            let variants: Vec<(&str, Result<Engine, String>)> = if opt {
                vec![("via-from_rules", guarded(|| Engine::from_rules(&rules, ParseOptions::default()))),
                     ("via-from_rules_debug", guarded(|| Engine::from_rules_debug(&rules, ParseOptions::default())))]
            } else {
                vec![("via-filter-set-line-by-line", guarded(|| {
                    let mut fs = adblock::lists::FilterSet::new(false);
                    for r in &rules { let _ = fs.add_filter(r, ParseOptions::default()); }
                    Engine::from_filter_set(fs, false)
                }))]
            };
            for (label, e) in variants {
                match e {
                    Ok(mut e) => { e.use_tags(&t); e.use_resources(ctx.resources.to_vec()); engines.push((label, e)); }
                    Err(p) => rep.mismatch(json!({"what": label, "rules": rules, "tags": tags, "opt": opt, "observed": "panic", "panic": p, "devs": []})),
                }
            }
        }
        engines.insert(0, ("", eng));
        let mut first: Vec<Option<(Value, Value)>> = vec![];
        let mut first_texts: Vec<Vec<String>> = vec![];
        for (label, eng) in engines.iter() {
            for (qi, q) in ctx.reqs.iter().enumerate() {
                let req = match Request::new(&q.url, &q.src, &q.alias) {
                    Ok(r) => r,
                    // a URL without an authority ('data:...') reaches the engine through Request::preparsed only
                    Err(_) if !q.url.contains("://") && q.url.contains(':') => {
                        let src_host = Request::new(&q.src, "", "").map(|s| s.hostname).unwrap_or_default();
                        rep.count("opaque_scheme_requests");
                        Request::preparsed(&q.url, "", &src_host, &q.alias, true)
                    }
                    Err(_) => {
                        rep.skipped += 1;
                        if label.is_empty() { first.push(None); }
                        continue;
                    }
                };
                rep.evaluations += 1;
                let mut texts: Vec<String> = vec![];
                let obs = match guarded(|| (eng.check_network_request(&req), eng.get_csp_directives(&req))) {
                    Ok((r, csp)) => {
                        texts.extend(r.filter.clone());
                        texts.extend(r.exception.clone());
                        (verdict_json(&r), csp_json(&csp))
                    }
                    Err(p) => (json!({"panic": p}), json!("panic")),
                };
                // Optimizer.tla binding: on the optimised debug engine the matched rule text of a fused rule
                // lists its members; the groups must be the ones the specification computes
                if let (true, true, Some(groups)) = (opt, label.is_empty(), c.get("fuse").and_then(|f| f.as_array())) {
                    for t in &texts {
                        let mut parts: Vec<&str> = t.split(" <+> ").collect();
                        parts.sort();
                        let spec_group = groups.iter().find(|g| g.as_array().unwrap().iter().any(|m| parts.contains(&m.as_str().unwrap())));
                        let ok = match spec_group {
                            Some(g) => { let mut m: Vec<&str> = g.as_array().unwrap().iter().map(|x| x.as_str().unwrap()).collect(); m.sort(); m == parts }
                            None => parts.len() == 1,
                        };
                        rep.count("fuse_observations");
                        if parts.len() > 1 { rep.count("fused_rule_observed"); }
                        if !ok {
                            rep.drift(json!({"what": "fuse-groups", "rules": rules, "tags": tags, "observed": parts, "model": groups}));
                        }
                    }
                }
                if obs.0["matched"] == json!(true) || obs.0["exception"] == json!(true) || obs.0["redirect"] != json!("")
                    || obs.0["rewritten"] != json!("") || obs.1 != json!([]) {
                    nontrivial = true;
                }
                if !allowed_has(&v_allowed[qi], &obs.0) {
                    let (mut devs, mut model) = match dev.get(&qi) {
                        // the model may itself be a set (ties); "model" = observed iff the model allows it
                        Some(d) => (d["names"].clone(), if allowed_has(&d["mv"], &obs.0) { obs.0.clone() } else { d["mv"].clone() }),
                        None => (json!([]), Value::Null),
                    };
                    if label.starts_with("after-reload") {
                        if let Some(w) = wire {
                            if allowed_has(&w["mv"][qi], &obs.0) {
                                devs = w["names"].clone();
                                model = obs.0.clone();
                            }
                        }
                    }
                    rep.mismatch(json!({"what": format!("verdict{}", if label.is_empty() { "".to_string() } else { format!("-{}", label) }),
                        "rules": rules, "tags": tags, "opt": opt,
                        "req": {"url": q.url, "src": q.src, "type": q.alias},
                        "observed": obs.0, "allowed": v_allowed[qi], "devs": devs, "model": model}));
                }
                let csp_ok = csp_allowed[qi].as_array().unwrap().iter().any(|a| sorted_set(a) == obs.1);
                if !csp_ok {
                    let (devs, model) = match dev.get(&qi) {
                        Some(d) => (d["names"].clone(),
                            if d["mcsp"].as_array().unwrap().iter().any(|a| sorted_set(a) == obs.1) { obs.1.clone() } else { d["mcsp"].clone() }),
                        None => (json!([]), Value::Null),
                    };
                    rep.mismatch(json!({"what": format!("csp{}", label), "rules": rules, "tags": tags, "opt": opt,
                        "req": {"url": q.url, "src": q.src, "type": q.alias},
                        "observed": obs.1, "allowed": csp_allowed[qi], "devs": devs, "model": model}));
                }
                // check_network_request_subset under the other flag combinations
                if let Some(sub) = c.get("subset").and_then(|x| x.as_array()).and_then(|a| a.get(qi)).and_then(|o| o.as_object()) {
                    for (key, allowed) in sub {
                        let (prev, force) = match key.as_str() {
                            "<<TRUE, FALSE>>" => (true, false),
                            "<<FALSE, TRUE>>" => (false, true),
                            _ => (true, true),
                        };
                        rep.evaluations += 1;
                        let o = match guarded(|| eng.check_network_request_subset(&req, prev, force)) {
                            Ok(r) => verdict_json(&r),
                            Err(p) => json!({"panic": p}),
                        };
                        if !allowed_has(allowed, &o) && !dev.contains_key(&qi) {
                            rep.mismatch(json!({"what": format!("subset{}", label), "rules": rules, "tags": tags, "opt": opt,
                                "previously_matched_rule": prev, "force_check_exceptions": force,
                                "req": {"url": q.url, "src": q.src, "type": q.alias}, "observed": o, "allowed": allowed, "devs": []}));
                        }
                    }
                }
                if label.is_empty() {
                    first_texts.resize(qi + 1, vec![]);
                    first_texts[qi] = texts.clone();
                } else if *label == "after-reload" && first_texts.get(qi).map_or(false, |t| *t != texts) {
                    // C08 literally, debug rules: the rule texts reported with the verdict are part of the result
                    rep.mismatch(json!({"what": "reload-differs-rule-text", "rules": rules, "tags": tags, "opt": opt,
                        "req": {"url": q.url, "src": q.src, "type": q.alias}, "observed": texts, "allowed": [first_texts[qi].clone()], "devs": []}));
                }
                if label.is_empty() {
                    first.push(Some(obs));
                } else if let Some(Some(orig)) = first.get(qi) {
                    // C08 literally: the reloaded engine answers like the original
                    if *orig != obs {
                        let (devs, model) = match wire {
                            Some(w) if allowed_has(&w["mv"][qi], &obs.0) => (w["names"].clone(), json!({"v": obs.0, "csp": obs.1})),
                            _ => (json!([]), Value::Null),
                        };
                        rep.mismatch(json!({"what": if label.starts_with("via-") { "constructor-differs" } else { "reload-differs" }, "label": label, "rules": rules, "tags": tags, "opt": opt,
                            "req": {"url": q.url, "src": q.src, "type": q.alias},
                            "observed": {"v": obs.0, "csp": obs.1}, "allowed": [{"v": orig.0, "csp": orig.1}], "devs": devs, "model": model}));
                    }
                }
            }
        }
    }
    // C01 relational clause on one-rule lists: the indexed engine finds the rule for exactly the requests its own
    // matcher accepts (this holds whatever the Ideal says about the pattern: where the Ideal is three-valued,
    // e.g. '||host*...' anchored in the middle of a label, index and matcher must still agree with each other)
    if rules.len() == 1 {
        use adblock::filters::network::{NetworkFilterMaskHelper, NetworkMatchable};
        if let Ok(f) = NetworkFilter::parse(&rules[0], true, Default::default()) {
            let listed = adblock::lists::parse_filter(&rules[0], true, ParseOptions::default()).is_ok();
            let plain_blocking = listed && !f.is_exception() && !f.is_csp() && !f.is_removeparam() && !f.is_badfilter() && !f.is_generic_hide()
                && !rules[0].contains("tag=") && (!f.is_redirect() || f.also_block_redirect());
            if plain_blocking {
                for opt in [false, true] {
                    let eng = match guarded(|| build_engine(&rules, &tags, &ctx.resources, opt)) { Ok(e) => e, Err(_) => continue };
                    for q in ctx.reqs.iter() {
                        let req = match Request::new(&q.url, &q.src, &q.alias) { Ok(r) => r, Err(_) => continue };
                        if !req.is_supported { continue; }
                        rep.evaluations += 1;
                        let mut rm = adblock::regex_manager::RegexManager::default();
                        let pair = guarded(|| (f.matches(&req, &mut rm), eng.check_network_request(&req).matched));
                        if let Ok((by_matcher, by_engine)) = pair {
                            if by_matcher != by_engine {
                                // open finding wsMatchesHttpOnlyRule: the matcher of a scheme-folded '|http://' / '|https://'
                                // rule accepts ws(s) URLs, the index (scheme token) keeps the engine from applying it
                                let pat = rules[0].split('$').next().unwrap_or("");
                                let folded = (pat == "|http://" || pat == "|https://") && (q.url.starts_with("ws://") || q.url.starts_with("wss://"));
                                let obs = json!({"engine": by_engine, "matcher": by_matcher});
                                rep.mismatch(json!({"what": "index-vs-matcher", "rules": rules, "opt": opt,
                                    "req": {"url": q.url, "src": q.src, "type": q.alias},
                                    "observed": obs, "allowed": [{"engine": by_matcher, "matcher": by_matcher}],
                                    "devs": if folded { json!(["wsMatchesHttpOnlyRule"]) } else { json!([]) },
                                    "model": if folded { obs.clone() } else { Value::Null }}));
                            }
                        }
                    }
                }
            }
        }
    }
    // C04 relational clause: adding an exception never blocks, adding a blocking rule never unblocks.
    // Every rule x of the list in turn is taken as "the added rule": engine(R) vs engine(R minus x).
    if c.get("mono").and_then(|m| m.as_bool()).unwrap_or(false) && rules.len() >= 1 {
        use adblock::filters::network::NetworkFilterMaskHelper;
        for opt in [false, true] {
            let full = match guarded(|| build_engine(&rules, &tags, &ctx.resources, opt)) {
                Ok(e) => e,
                Err(_) => continue,
            };
            for i in 0..rules.len() {
                let x = match NetworkFilter::parse(&rules[i], true, Default::default()) {
                    Ok(f) => f,
                    Err(_) => continue,
                };
                if x.is_badfilter() || x.is_csp() || x.is_removeparam() || x.is_generic_hide() {
                    continue;
                }
                let mut rest = rules.clone();
                rest.remove(i);
                let without = match guarded(|| build_engine(&rest, &tags, &ctx.resources, opt)) {
                    Ok(e) => e,
                    Err(_) => continue,
                };
                for q in ctx.reqs.iter() {
                    let req = match Request::new(&q.url, &q.src, &q.alias) {
                        Ok(r) => r,
                        Err(_) => continue,
                    };
                    rep.evaluations += 1;
                    let (bw, bwo) = match guarded(|| (full.check_network_request(&req).matched, without.check_network_request(&req).matched)) {
                        Ok(v) => v,
                        Err(_) => continue,
                    };
                    let bad = if x.is_exception() { bw && !bwo } else { bwo && !bw };
                    if bad {
                        rep.mismatch(json!({"what": "mono", "list": rest, "added": rules[i], "tags": tags, "opt": opt,
                            "req": {"url": q.url, "src": q.src, "type": q.alias},
                            "observed": {"blocked_with": bw, "blocked_without": bwo}, "allowed": [], "devs": []}));
                    }
                }
            }
        }
    }
    // matcher level (public NetworkMatchable::matches), when the export carries per-rule hits
    if let Some(hits) = hits_allowed {
        let parsed: Vec<Option<NetworkFilter>> = rules
            .iter()
            .map(|r| NetworkFilter::parse(r, true, Default::default()).ok())
            .collect();
        for (qi, q) in ctx.reqs.iter().enumerate() {
            let req = match Request::new(&q.url, &q.src, &q.alias) {
                Ok(r) => r,
                Err(_) => continue,
            };
            for (ri, f) in parsed.iter().enumerate() {
                if let Some(f) = f {
                    rep.evaluations += 1;
                    let obs = match guarded(|| f.matches(&req, &mut RegexManager::default())) {
                        Ok(b) => json!(b),
                        Err(_) => json!("panic"),
                    };
                    if !allowed_has(&hits[qi][ri], &obs) {
                        let (devs, model) = match hdev.get(&(qi, ri)) {
                            Some(d) => (d["names"].clone(), d["m"].clone()),
                            None => (json!([]), Value::Null),
                        };
                        rep.mismatch(json!({"what": "matcher", "rule": rules[ri],
                            "req": {"url": q.url, "src": q.src, "type": q.alias},
                            "observed": obs, "allowed": hits[qi][ri], "devs": devs, "model": model}));
                    }
                } else {
                    rep.count("rule_rejected_by_parser");
                }
            }
        }
    }
    if nontrivial {
        rep.nontrivial += 1;
        if rep.samples.len() < 3 && rules.len() > 0 {
            rep.sample(json!({"rules": rules, "tags": tags, "first_request": {"url": ctx.reqs[0].url, "allowed": v_allowed[0]}}));
        }
    }
}
