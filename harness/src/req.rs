//! C12: requests built from URL strings.
use crate::util::*;
use adblock::lists::ParseOptions;
use adblock::request::Request;
use adblock::Engine;
use serde_json::{json, Value};

fn fields(r: &Request) -> Value {
    json!({
        "type": format!("{:?}", r.request_type).to_lowercase(),
        "http": r.is_http, "https": r.is_https, "supported": r.is_supported, "tp": r.is_third_party,
        "url": r.url, "hostname": r.hostname, "src_hashes": r.source_hostname_hashes, "tokens": r.get_tokens(),
    })
}

pub struct ReqCtx {
    engine: Engine,
}
impl Default for ReqCtx {
    fn default() -> Self {
        let rules = ["||a.com^$third-party", "||s.a.com^$first-party", "/p?q=$script,domain=b.com", "||a.co.uk^", "@@||b.com^$document",
                     "|http://", "|ws://", "||1.2.3.4^$third-party", "@b.com", "||localhost^", "/a.com/*x$domain=~a.com"];
        ReqCtx { engine: Engine::from_rules_parametrised(rules, ParseOptions::default(), true, false) }
    }
}

pub fn replay_req(ctx: &ReqCtx, c: &Value, rep: &mut Report) {
    let url = c["url"].as_str().unwrap();
    let src = c["src"].as_str().unwrap();
    let alias = c["alias"].as_str().unwrap();
    let e = &c["expect"];
    rep.evaluations += 1;
    let r = match guarded(|| Request::new(url, src, alias)) {
        Err(p) => {
            rep.mismatch(json!({"what": "req-new", "url": url, "src": src, "observed": "panic", "panic": p, "devs": []}));
            return;
        }
        Ok(Err(err)) => {
            rep.mismatch(json!({"what": "req-new", "url": url, "src": src, "observed": format!("error:{:?}", err), "allowed": ["ok"], "devs": []}));
            return;
        }
        Ok(Ok(r)) => r,
    };
    let obs = json!({"hostname": r.hostname, "tp": r.is_third_party, "supported": r.is_supported, "http": r.is_http, "https": r.is_https,
                     "type": format!("{:?}", r.request_type).to_lowercase()});
    // tp_any: the party of this (url, source) pair is unspecified
    let tp_want = if e.get("tp_any").and_then(|b| b.as_bool()).unwrap_or(false) { json!(r.is_third_party) } else { e["tp"].clone() };
    let want = json!({"hostname": e["hostname"], "tp": tp_want, "supported": e["supported"], "http": e["http"], "https": e["https"], "type": e["type"]});
    if obs != want {
        rep.mismatch(json!({"what": "req-fields", "url": url, "src": src, "alias": alias, "observed": obs, "allowed": [want], "devs": []}));
    }
    if r.is_supported {
        rep.nontrivial += 1;
    }
    // Request::preparsed with the consistent tuple behaves identically
    let src_host = Request::new(src, "", "").map(|s| s.hostname).unwrap_or_default();
    match guarded(|| Request::preparsed(&r.url, &r.hostname, &src_host, alias, r.is_third_party)) {
        Err(p) => rep.mismatch(json!({"what": "req-preparsed", "url": url, "observed": "panic", "panic": p, "devs": []})),
        Ok(p) => {
            let (a, b) = (fields(&r), fields(&p));
            if a != b {
                rep.mismatch(json!({"what": "req-preparsed", "url": url, "src": src, "alias": alias, "observed": b, "allowed": [a], "devs": []}));
            }
            let va = crate::net::verdict_json(&ctx.engine.check_network_request(&r));
            let vb = crate::net::verdict_json(&ctx.engine.check_network_request(&p));
            // the rewritten URL is built from the original spelling, which preparsed does not have
            if va["matched"] != vb["matched"] || va["exception"] != vb["exception"] || va["important"] != vb["important"] {
                rep.mismatch(json!({"what": "req-preparsed-verdict", "url": url, "src": src, "alias": alias, "observed": vb, "allowed": [va], "devs": []}));
            }
        }
    }
    if rep.samples.len() < 3 && r.is_third_party && !src.is_empty() {
        rep.sample(json!({"url": url, "src": src, "alias": alias, "expect": e}));
    }
}

/// M3 driver (totality): arbitrary strings for every argument of Request::new / preparsed
pub fn record_c12(out: &str, seed: u64, n: usize) {
    let mut rng = Rng::new(seed);
    let mut w = LineWriter::create(out);
    let pieces = ["http", "https", "ws", "wss", "ftp", "data", "HTTP", ":", "//", "/", "\\", "@", "?", "#", ".", "..", "[", "]", "[::1]", "%", "%zz", "%41",
        "a", "com", "a.com", "b.co.uk", "xn--", "xn--e1afmkfd", "пример", "рф", "é", "日本", "\u{200d}", "\u{ad}", "\u{3002}", "．", "\t", "\n", "\r", " ", "\u{0}", "\u{1f}", "\u{7f}",
        "1", "127.0.0.1", "0x7f.1", "999999999999", "-", "_", "~", "\u{10ffff}", "\u{1f600}", "%F0%9F", "\u{fffd}", ":80", ":99999", "u:p@", "@@", "||"];
    let gen = |rng: &mut Rng| -> String {
        let mut s = String::new();
        if rng.chance(3, 4) {
            s.push_str(rng.pick(&["https://", "http://", "ws://", "wss:/", "ftp://", "https:", "HTTPS://", " https://", "https://u@"]));
        }
        for _ in 0..rng.below(8) {
            s.push_str(pieces[rng.below(pieces.len())]);
        }
        s
    };
    let mut ok = 0u64;
    let mut samples = vec![];
    while w.n < n {
        let url = gen(&mut rng);
        let src = if rng.chance(1, 5) { String::new() } else { gen(&mut rng) };
        let ty = if rng.chance(1, 3) { gen(&mut rng) } else { rng.pick(&["script", "document", "", "websocket"]).to_string() };
        let out = match guarded(|| Request::new(&url, &src, &ty)) {
            Ok(Ok(r)) => {
                ok += 1;
                // consistency the spec can state without a URL parser: scheme class vs flags
                json!({"res": "ok", "http": r.is_http, "https": r.is_https, "supported": r.is_supported, "tp": r.is_third_party,
                       "type": format!("{:?}", r.request_type).to_lowercase(), "scheme": r.url.split(':').next().unwrap_or("").to_string(),
                       "nosrc": r.source_hostname_hashes.is_none()})
            }
            Ok(Err(_)) => json!({"res": "err", "http": false, "https": false, "supported": false, "tp": true, "type": "", "scheme": "", "nosrc": true}),
            Err(p) => json!({"res": format!("panic:{}", p), "http": false, "https": false, "supported": false, "tp": true, "type": "", "scheme": "", "nosrc": true}),
        };
        // preparsed takes raw strings; it slices url[..colon]
        let pre = match guarded(|| Request::preparsed(&url, &src, &ty, "script", rng.0 % 2 == 0)) {
            Ok(_) => "ok".to_string(),
            Err(p) => format!("panic:{}", p),
        };
        let ev = json!({"url": url, "src": src, "ty": ty, "new": out, "preparsed": pre});
        if samples.len() < 3 && out["res"] == json!("ok") {
            samples.push(ev.clone());
        }
        w.put(&ev);
    }
    let events = w.n;
    w.finish();
    println!("{}", json!({"events": events, "nontrivial": ok, "samples": samples}));
}
