//! The properties at SIZE: inputs no bounded universe reaches (hundreds of rules in one bucket, dozens of
//! `domain=` values, hostnames with a dozen labels, URLs with a hundred tokens, hundreds of tag switches ...).
//! The expectations are relational or hold by construction:
//!   * an engine holding a list answers, for the URL made for rule i, what an engine holding rule i alone answers;
//!   * a rule restricted to listed sites applies from every listed site (and below it) and from no other one;
//!   * a list with rejected lines interleaved builds the engine the list without them builds;
//!   * an engine with a long history answers like a fresh one.
//! One report per property; a disagreement is a mismatch like any other.
use crate::util::*;
use adblock::lists::{FilterFormat, FilterSet, ParseOptions};
use adblock::request::Request;
use adblock::resources::{MimeType, PermissionMask, Resource, ResourceType};
use adblock::Engine;
use serde_json::json;

fn eng(rules: &[String], opt: bool) -> Engine {
    Engine::from_rules_parametrised(rules, ParseOptions::default(), true, opt)
}
fn matched(e: &Engine, url: &str, src: &str, ty: &str) -> Result<bool, String> {
    let r = Request::new(url, src, ty).map_err(|e| format!("request: {:?}", e))?;
    guarded(|| e.check_network_request(&r).matched)
}
fn expect(rep: &mut Report, what: &str, detail: serde_json::Value, observed: Result<bool, String>, want: bool) {
    rep.evaluations += 1;
    match observed {
        Ok(b) if b == want => { if want { rep.nontrivial += 1; } }
        Ok(b) => rep.mismatch(json!({"what": what, "case": detail, "observed": b, "allowed": [want], "devs": []})),
        Err(p) => rep.mismatch(json!({"what": what, "case": detail, "observed": "panic", "panic": p, "allowed": [want], "devs": []})),
    }
}
fn deep_host(labels: usize, base: &str) -> String {
    let mut s = String::new();
    for i in (1..=labels).rev() { s.push_str(&format!("n{}.", i)); }
    s.push_str(base);
    s
}
fn sites(n: usize, stem: &str) -> Vec<String> { (0..n).map(|i| format!("{}{:03}.example", stem, i)).collect() }

/// every rule of a big list, against its own URL: the list engine answers like the one-rule engine
fn each_rule_alone(rep: &mut Report, what: &str, rules: &[String], urls: &[String], ty: &str) {
    for opt in [false, true] {
        let all = match guarded(|| eng(rules, opt)) { Ok(e) => e, Err(p) => { rep.mismatch(json!({"what": what, "observed": "panic", "panic": p, "n": rules.len(), "devs": []})); continue; } };
        for (i, u) in urls.iter().enumerate() {
            let alone = eng(&rules[i..i + 1], false);
            let want = matched(&alone, u, "https://page.example/", ty).unwrap_or(false);
            expect(rep, what, json!({"rules": rules.len(), "rule": rules[i], "url": u, "opt": opt}), matched(&all, u, "https://page.example/", ty), want);
        }
    }
}

fn network(rep: &mut Report, prop: &str) {
    // fuse groups of every size around the chunk sizes an optimiser may use (one bucket, one mask)
    for n in [63usize, 64, 65, 66, 67, 127, 128, 129, 130, 131, 193, 257, 385, 400, 513, 800] {
        let rules: Vec<String> = (0..n).map(|i| format!("/adsrv/unit{:04}x", i)).collect();
        let urls: Vec<String> = (0..n).map(|i| format!("https://cdn.example/adsrv/unit{:04}x/a.js", i)).collect();
        each_rule_alone(rep, "big-fuse-group-plain", &rules, &urls, "script");
        if n % 64 <= 3 || n >= 400 {
            // the same with wildcard rules (compiled into ONE regex set when fused)
            let rules: Vec<String> = (0..n).map(|i| format!("/zpixel/*x{:04}^", i)).collect();
            let urls: Vec<String> = (0..n).map(|i| format!("https://cdn.example/zpixel/a/b/x{:04}?u=1", i)).collect();
            each_rule_alone(rep, "big-fuse-group-wildcard", &rules, &urls, "image");
            // token-less one-word rules (the fallback bucket)
            let rules: Vec<String> = (0..n).map(|i| format!("adzone{:04}x", i)).collect();
            let urls: Vec<String> = (0..n).map(|i| format!("https://cdn.example/q-adzone{:04}xy", i)).collect();
            each_rule_alone(rep, "big-fuse-group-tokenless", &rules, &urls, "image");
        }
    }
    // many end-anchored rules in one group, some a prefix of another
    for n in [20usize, 63, 64, 80, 160] {
        let mut rules: Vec<String> = vec![]; let mut urls: Vec<String> = vec![];
        for i in 0..n / 2 {
            // single letters are no tokens: 'zonead' is the only token of every rule (one bucket, one group)
            let seg = format!("{}-{}", (b'a' + (i / 26) as u8) as char, (b'a' + (i % 26) as u8) as char);
            rules.push(format!("/zonead/{}|", seg)); urls.push(format!("https://cdn.example/zonead/{}", seg));
            rules.push(format!("/zonead/{}-v|", seg)); urls.push(format!("https://cdn.example/zonead/{}-v", seg));
        }
        each_rule_alone(rep, "big-fuse-group-end-anchored", &rules, &urls, "image");
    }
    if prop == "C04" {
        // monotone at size: 64 -> 65 exceptions / important rules
        for n in [64usize, 65, 67, 130, 131] {
            let mut rules: Vec<String> = vec!["||cdn.example^".to_string()];
            rules.extend((0..n).map(|i| format!("@@/adsrv/unit{:04}x", i)));
            let e = eng(&rules, true);
            for i in 0..n {
                expect(rep, "many-exceptions", json!({"n": n, "i": i}), matched(&e, &format!("https://cdn.example/adsrv/unit{:04}x/a.js", i), "https://page.example/", "script"), false);
            }
        }
    }
    // a URL with many tokens (still fewer than 127) asked from a page whose host has many labels
    for labels in [0usize, 4, 10, 14] {
        for params in [40usize, 55, 58, 60] {
            let mut url = String::from("https://cdn.example/path/file.js?");
            for k in 0..params { url.push_str(&format!("k{:02}x=v{:02}y&", k, k)); }
            url.push_str("lasttoken=1");
            let src = format!("https://{}/", deep_host(labels, "page.example"));
            let r = match Request::new(&url, &src, "script") { Ok(r) => r, Err(_) => continue };
            if r.get_tokens().len() >= 127 { continue; }
            for rule in ["&lasttoken=", "adzone", "/path/file.js?", "k00x=", "*$script,domain=page.example|other.example"] {
                let e = eng(&[rule.to_string()], false);
                let want = !(rule == "adzone");
                expect(rep, "long-url-deep-source", json!({"rule": rule, "url_tokens": r.get_tokens().len(), "source_labels": labels + 2}),
                       guarded(|| e.check_network_request(&r).matched), want);
            }
        }
    }
    // a request host of the maximal length
    for labels in [10usize, 40, 60, 61, 62] {
        let host = deep_host(labels, "example.com");
        if host.len() > 253 { continue; }
        for (rule, path) in [("||example.com/ads/banner", "/ads/banner.js"), ("||example.com/ads/banner.js|", "/ads/banner.js"), ("||example.com^ads/ban", "/ads/banner.js"), ("||example.com/ads/*.js", "/ads/banner.js")] {
            let e = eng(&[rule.to_string()], false);
            expect(rep, "long-request-host", json!({"rule": rule, "host_bytes": host.len()}), matched(&e, &format!("https://{}{}", host, path), "https://page.example/", "script"), true);
        }
    }
}

fn options(rep: &mut Report) {
    // a rule restricted to many sites, reached through a pattern token
    for n in [1usize, 2, 5, 12, 24, 48, 100, 300] {
        let listed = sites(n, "site");
        for (rule_head, exc) in [("||ads.tracker.net^$script,domain=", false), ("/lib/track.js$domain=", false), ("@@||ads.tracker.net^$script,domain=", true)] {
            let rule = format!("{}{}", rule_head, listed.join("|"));
            let mut rules = vec![rule.clone()];
            if exc { rules.insert(0, "||ads.tracker.net^".to_string()); }
            let e = eng(&rules, true);
            let url = "https://ads.tracker.net/lib/track.js";
            for (k, s) in listed.iter().enumerate().filter(|(k, _)| *k < 6 || *k + 3 > n) {
                let _ = k;
                expect(rep, "many-domains-listed", json!({"n": n, "rule": rule_head, "source": s}), matched(&e, url, &format!("https://{}/", s), "script"), !exc);
                expect(rep, "many-domains-listed-subdomain", json!({"n": n, "rule": rule_head, "source": s}), matched(&e, url, &format!("https://www.{}/", s), "script"), !exc);
            }
            for s in sites(10, "other") {
                expect(rep, "many-domains-unlisted", json!({"n": n, "rule": rule_head, "source": s}), matched(&e, url, &format!("https://{}/", s), "script"), exc);
            }
        }
    }
    // a page host many labels below a listed / an excluded site
    for extra in [0usize, 3, 7, 8, 9, 12] {
        let below = |base: &str| format!("https://{}/", deep_host(extra, base));
        let url = "https://ads.tracker.net/unit.js";
        for (rule, base, want) in [("||ads.tracker.net^$domain=example.com", "example.com", true), ("||ads.tracker.net^$domain=~example.com", "example.com", false),
                                   ("||ads.tracker.net^$domain=example.org|~private.example.org", "private.example.org", false),
                                   ("||ads.tracker.net^$domain=example.org|~private.example.org", "public.example.org", true),
                                   ("||ads.tracker.net^$domain=cdn.cloud.example.net", "cdn.cloud.example.net", true)] {
            let e = eng(&[rule.to_string()], false);
            expect(rep, "deep-source-host", json!({"rule": rule, "extra_labels": extra, "below": base}), matched(&e, url, &below(base), "script"), want);
        }
    }
}

fn history(rep: &mut Report) {
    // hundreds of tag switches without a query in between, then the rules of the tag switched on last
    let mut rules: Vec<String> = vec![];
    for g in 0..3 { for i in 0..40 { rules.push(format!("/grp{}w{:02}/*/banner^$tag=g{}", g, i, g)); } }
    for switches in [3usize, 255, 256, 257, 512] {
        let mut e = eng(&rules, false);
        e.use_tags(&["g0"]);
        for i in 0..40 { let _ = matched(&e, &format!("https://cdn.example/grp0w{:02}/x/banner?", i), "https://page.example/", "image"); }
        for k in 0..switches { e.use_tags(&[["g1", "g2", "g0"][k % 3]]); }
        let last = ["g1", "g2", "g0"][(switches - 1) % 3];
        let g = &last[1..];
        let mut fresh = eng(&rules, false);
        fresh.use_tags(&[last]);
        for i in 0..40 {
            let u = format!("https://cdn.example/grp{}w{:02}/x/banner?", g, i);
            let want = matched(&fresh, &u, "https://page.example/", "image").unwrap_or(false);
            expect(rep, "many-tag-switches", json!({"switches": switches, "url": u}), matched(&e, &u, "https://page.example/", "image"), want);
        }
    }
    // tags only ever ADDED, with queries in between: every rebuild of the tagged list moves its rules
    {
        let mut e = eng(&rules, false);
        let mut on: Vec<&str> = vec![];
        for step in ["g0", "g1", "g2"] {
            if on.is_empty() { e.use_tags(&[step]); } else { e.enable_tags(&[step]); }
            on.push(step);
            let mut fresh = eng(&rules, false);
            fresh.use_tags(&on);
            for g in 0..3 { for i in 0..40 {
                let u = format!("https://cdn.example/grp{}w{:02}/x/banner?", g, i);
                let want = matched(&fresh, &u, "https://page.example/", "image").unwrap_or(false);
                expect(rep, "tags-only-added", json!({"enabled": on, "url": u}), matched(&e, &u, "https://page.example/", "image"), want);
            } }
        }
    }
    // many tags switched off / on in one call
    let tags: Vec<String> = (0..48).map(|i| format!("feature-{:02}", i)).collect();
    let rules: Vec<String> = tags.iter().enumerate().map(|(i, t)| format!("/feat{:02}/x$tag={}", i, t)).collect();
    let mut e = eng(&rules, false);
    let all: Vec<&str> = tags.iter().map(|s| s.as_str()).collect();
    e.enable_tags(&all);
    let off: Vec<&str> = (0..30).map(|k| all[(k * 7) % 48]).collect();
    e.disable_tags(&off);
    for (i, t) in tags.iter().enumerate() {
        let want = !off.contains(&t.as_str());
        rep.evaluations += 1;
        if e.tag_exists(t) != want {
            rep.mismatch(json!({"what": "many-tags-in-one-call", "tag": t, "observed": e.tag_exists(t), "allowed": [want], "devs": []}));
        }
        expect(rep, "many-tags-in-one-call-rules", json!({"tag": t}), matched(&e, &format!("https://cdn.example/feat{:02}/x", i), "https://page.example/", "image"), want);
    }
    let rev: Vec<&str> = all.iter().rev().cloned().collect();
    e.disable_tags(&rev);
    for t in &tags {
        rep.evaluations += 1;
        if e.tag_exists(t) { rep.mismatch(json!({"what": "many-tags-in-one-call", "tag": t, "observed": true, "allowed": [false], "devs": []})); }
    }
}

fn lists(rep: &mut Report) {
    // a long list with as many rejected lines as rules: the rules all load
    let n = 130_000usize;
    let mut lines: Vec<String> = Vec::with_capacity(2 * n);
    for i in 0..n { lines.push(format!("! comment number {} of the header block {}", i, i * 7919)); }
    for i in 0..n { lines.push(format!("||ads{}.tracker-{}.example^", i, i % 977)); }
    match guarded(|| { let mut fs = FilterSet::new(false); fs.add_filters(&lines, ParseOptions::default()); Engine::from_filter_set(fs, true) }) {
        Err(p) => rep.mismatch(json!({"what": "long-list", "observed": "panic", "panic": p, "devs": []})),
        Ok(e) => {
            let mut lost = vec![];
            for i in 0..n {
                rep.evaluations += 1;
                if matched(&e, &format!("https://ads{}.tracker-{}.example/pixel.gif", i, i % 977), "https://page.example/", "image") != Ok(true) { lost.push(i); }
            }
            rep.nontrivial += (n - lost.len()) as u64;
            if !lost.is_empty() {
                rep.mismatch(json!({"what": "long-list-rules-lost", "observed": lost.len(), "first": format!("||ads{}.tracker-{}.example^", lost[0], lost[0] % 977), "allowed": [0], "devs": []}));
            }
        }
    }
    // long host names in hosts format = ||host^
    let long_label = format!("ü{}.example", "a".repeat(58));
    let many_labels = format!("ü.{}", (0..100).map(|i| format!("l{}", i % 10)).collect::<Vec<_>>().join("."));
    let ascii_label = format!("{}.example", "b".repeat(63));
    for host in [long_label.as_str(), many_labels.as_str(), ascii_label.as_str(), "www.www.example.org"] {
        let h = guarded(|| Engine::from_rules_parametrised(&[host.to_string()], ParseOptions { format: FilterFormat::Hosts, ..Default::default() }, true, false));
        let s = guarded(|| eng(&[format!("||{}^", host)], false));
        if let (Ok(h), Ok(s)) = (h, s) {
            for u in [format!("https://{}/x", host), format!("https://sub.{}/x", host), "https://example.org/x".to_string()] {
                if let Ok(want) = matched(&s, &u, "https://page.example/", "image") {
                    expect(rep, "long-hosts-entry", json!({"host_bytes": host.len(), "url_bytes": u.len()}), matched(&h, &u, "https://page.example/", "image"), want);
                }
            }
        } else {
            rep.mismatch(json!({"what": "long-hosts-entry", "observed": "panic", "host_bytes": host.len(), "devs": []}));
        }
    }
}

fn requests(rep: &mut Report) {
    // public suffixes of up to five labels (givens, from the public suffix list): two tenants are two sites
    for suffix in ["com", "co.uk", "s3.amazonaws.com", "s3.dualstack.us-east-1.amazonaws.com", "app.os.stg.fedoraproject.org"] {
        let a = format!("https://tenant-a.{}/x.js", suffix);
        let b = format!("https://tenant-b.{}/", suffix);
        let deep = format!("https://{}/x.js", deep_host(9, &format!("tenant-a.{}", suffix)));
        for (u, s, want) in [(&a, &b, true), (&a, &format!("https://www.tenant-a.{}/", suffix), false), (&deep, &format!("https://tenant-a.{}/", suffix), false), (&deep, &b, true)] {
            rep.evaluations += 1;
            match guarded(|| Request::new(u, s, "script").map(|r| r.is_third_party)) {
                Ok(Ok(tp)) if tp == want => rep.nontrivial += 1,
                other => rep.mismatch(json!({"what": "party-under-long-suffix", "url": u, "source": s, "observed": format!("{:?}", other), "allowed": [want], "devs": []})),
            }
        }
    }
    // schemes of every length through both constructors
    for len in [3usize, 8, 13, 15, 16, 17, 24, 40] {
        let scheme: String = "chrome-extension-scheme-of-a-very-long-name".chars().take(len).collect();
        let scheme = scheme.trim_end_matches('-').to_string();
        let url = format!("{}://ads.tracker.net/x.js", scheme);
        rep.evaluations += 1;
        let p = guarded(|| Request::preparsed(&url, "ads.tracker.net", "page.example", "script", true));
        match p {
            Ok(r) if !r.is_supported && !r.is_http && !r.is_https => {}
            Ok(r) => rep.mismatch(json!({"what": "long-scheme-preparsed", "url": url, "observed": {"supported": r.is_supported, "https": r.is_https}, "allowed": [{"supported": false, "https": false}], "devs": []})),
            Err(p) => rep.mismatch(json!({"what": "long-scheme-preparsed", "url": url, "observed": "panic", "panic": p, "devs": []})),
        }
    }
}

fn removeparam(rep: &mut Report) {
    // long queries: exactly the named parameter goes
    for n in [10usize, 63, 64, 65, 66, 128, 129, 200] {
        for at in [0usize, 1, n / 2, n - 1] {
            let mut parts: Vec<String> = (0..n).map(|i| format!("p{}={}", i, i)).collect();
            parts[at] = "zz=1".to_string();
            let url = format!("https://example.com/p?{}", parts.join("&"));
            parts.remove(at);
            let want = format!("https://example.com/p?{}", parts.join("&"));
            let e = eng(&["||example.com^$removeparam=zz".to_string()], false);
            rep.evaluations += 1;
            let got = Request::new(&url, "https://page.example/", "xhr").ok().and_then(|r| guarded(|| e.check_network_request(&r).rewritten_url).ok());
            if got != Some(Some(want.clone())) {
                rep.mismatch(json!({"what": "long-query", "params": n, "removed_at": at, "observed": format!("{:?}", got).chars().take(300).collect::<String>(), "allowed": [want.chars().take(300).collect::<String>()], "devs": []}));
            } else { rep.nontrivial += 1; }
        }
    }
    // many rules matching one request; a parameter with an empty value stays
    for n in [1usize, 8, 16, 17, 40] {
        let rules: Vec<String> = (0..n).map(|i| if i == 0 { "||shop.example.com^$removeparam=ref".to_string() } else { format!("||shop.example.com^$removeparam=t{}", i) }).collect();
        let e = eng(&rules, true);
        for (url, want) in [("https://shop.example.com/i.html?id=7&ref=&sid=abc#r", None), ("https://shop.example.com/i.html?id=7&ref=x&sid=abc#r", Some("https://shop.example.com/i.html?id=7&sid=abc#r")),
                            ("https://shop.example.com/i.html?ref=&id=7", None)] {
            rep.evaluations += 1;
            let got = Request::new(url, "https://page.example/", "xhr").ok().and_then(|r| guarded(|| e.check_network_request(&r).rewritten_url).ok());
            if got != Some(want.map(|s| s.to_string())) {
                rep.mismatch(json!({"what": "many-removeparam-rules", "rules": n, "url": url, "observed": format!("{:?}", got), "allowed": [want], "devs": []}));
            } else { rep.nontrivial += 1; }
        }
    }
}

fn cosmetic_lookup(rep: &mut Report) {
    // long escaped identifiers
    for units in [10usize, 63, 64, 65, 70, 200] {
        for sigil in [".", "#"] {
            let name: String = (0..units).map(|i| if i % 5 == 2 { ":".to_string() } else { ((b'a' + (i % 26) as u8) as char).to_string() }).collect();
            let escaped = name.replace(':', "\\:");
            let rule = format!("##{}{}", sigil, escaped);
            let e = eng(&[rule.clone()], true);
            let (classes, ids): (Vec<String>, Vec<String>) = if sigil == "." { (vec![name.clone()], vec![]) } else { (vec![], vec![name.clone()]) };
            rep.evaluations += 1;
            let got = guarded(|| e.hidden_class_id_selectors(&classes, &ids, &Default::default()));
            let want = vec![format!("{}{}", sigil, escaped)];
            if got.as_ref().ok() != Some(&want) {
                rep.mismatch(json!({"what": "long-escaped-identifier", "units": units, "rule": rule, "observed": format!("{:?}", got), "allowed": [want], "devs": []}));
            } else { rep.nontrivial += 1; }
        }
    }
    // a page with many exceptions
    for n in [2usize, 8, 9, 12, 300] {
        let mut rules: Vec<String> = vec!["###idx".into(), "###idy".into(), "##.idy".into(), "##.cx".into(), "###idx > .q".into()];
        for i in 0..n { rules.push(format!("example.com#@#.filler{}", i)); }
        rules.push("example.com#@##idx".into());
        rules.push("example.com#@#.idy".into());
        let e = eng(&rules, true);
        let ex = e.url_cosmetic_resources("https://example.com/").exceptions;
        rep.evaluations += 1;
        let mut got = guarded(|| e.hidden_class_id_selectors(&["cx".to_string(), "idy".to_string()], &["idx".to_string(), "idy".to_string()], &ex)).unwrap_or_else(|p| vec![format!("panic: {}", p)]);
        got.sort();
        let mut want = vec!["#idy".to_string(), ".cx".to_string(), "#idx > .q".to_string()];
        want.sort();
        if got != want {
            rep.mismatch(json!({"what": "many-exceptions-on-a-page", "exceptions": ex.len(), "observed": got, "allowed": [want], "devs": []}));
        } else { rep.nontrivial += 1; }
    }
}

fn res(name: &str, content: &str, deps: Vec<String>, perm: u8) -> Resource {
    use base64::Engine as _;
    Resource { name: name.to_string(), aliases: vec![], kind: ResourceType::Mime(if name.ends_with(".fn") { MimeType::FnJavascript } else { MimeType::ApplicationJavascript }),
               content: base64::engine::general_purpose::STANDARD.encode(content), dependencies: deps, permission: PermissionMask::from_bits(perm) }
}

fn scriptlets(rep: &mut Report) {
    // a dependency chain with the permissioned link at the far end
    for n in [3usize, 63, 64, 65, 100] {
        let mut rs = vec![res("chain.js", "function chain() { }", vec!["link0.fn".into()], 0)];
        for i in 0..n {
            let deps = if i + 1 < n { vec![format!("link{}.fn", i + 1), "shared.fn".to_string()] } else { vec![] };
            rs.push(res(&format!("link{}.fn", i), &format!("function link{}() {{ }}", i), deps, if i + 1 == n { 4 } else { 0 }));
        }
        rs.push(res("shared.fn", "function shared() { }", vec![], 0));
        for (perm, want) in [(0u8, false), (4u8, true)] {
            let mut fs = FilterSet::new(true);
            fs.add_filters(["example.com##+js(chain, a)"], ParseOptions { permissions: PermissionMask::from_bits(perm), ..Default::default() });
            let mut e = Engine::from_filter_set(fs, true);
            e.use_resources(rs.clone());
            rep.evaluations += 1;
            let got = guarded(|| e.url_cosmetic_resources("https://example.com/").injected_script.contains("chain(\"a\")"));
            if got != Ok(want) {
                rep.mismatch(json!({"what": "long-dependency-chain", "links": n, "list_permission": perm, "observed": format!("{:?}", got), "allowed": [want], "devs": []}));
            } else if want { rep.nontrivial += 1; }
        }
    }
    // many arguments
    for n in [0usize, 8, 9, 10, 11, 30] {
        let args: Vec<String> = (0..n).map(|i| format!("arg{}", i)).collect();
        let rule = format!("example.com##+js({})", std::iter::once("fnscript".to_string()).chain(args.iter().cloned()).collect::<Vec<_>>().join(", "));
        let mut e = eng(&[rule.clone()], true);
        e.use_resources(vec![res("fnscript.js", "function fnscript() { }", vec![], 0)]);
        let want = format!("fnscript({})", args.iter().map(|a| format!("\"{}\"", a)).collect::<Vec<_>>().join(", "));
        rep.evaluations += 1;
        let got = guarded(|| e.url_cosmetic_resources("https://example.com/").injected_script);
        if !got.as_ref().map(|s| s.contains(&want)).unwrap_or(false) {
            rep.mismatch(json!({"what": "many-arguments", "n": n, "observed": format!("{:?}", got).chars().take(400).collect::<String>(), "allowed": [want], "devs": []}));
        } else { rep.nontrivial += 1; }
    }
}

#[cfg(feature = "unsync")]
fn content_blocking(rep: &mut Report) {
    // many exceptions, then blocking rules: every ignore-previous-rules entry comes after every other entry
    for n in [10usize, 256, 257, 300, 600] {
        let mut fs = FilterSet::new(true);
        let mut lines: Vec<String> = vec!["||first.example^".to_string()];
        for i in 0..n { lines.push(format!("@@||allow{}.example^$script", i)); if i % 50 == 49 { lines.push(format!("||mid{}.example^", i)); } }
        lines.push("||last.example^".to_string());
        lines.push("example.com##.ad".to_string());
        fs.add_filters(&lines, ParseOptions::default());
        rep.evaluations += 1;
        match guarded(|| fs.into_content_blocking()) {
            Ok(Ok((rules, _))) => {
                let v = serde_json::to_value(&rules).unwrap();
                let kinds: Vec<bool> = v.as_array().unwrap().iter().map(|r| r["action"]["type"] == json!("ignore-previous-rules")).collect();
                let first_ignore = kinds.iter().position(|k| *k).unwrap_or(kinds.len());
                let late = kinds[first_ignore..].iter().filter(|k| !**k).count();
                if late > 0 { rep.mismatch(json!({"what": "many-exceptions-order", "exceptions": n, "observed": late, "allowed": [0], "devs": []})); } else { rep.nontrivial += 1; }
            }
            other => rep.mismatch(json!({"what": "many-exceptions-order", "exceptions": n, "observed": format!("{:?}", other.map(|r| r.is_ok())), "devs": []})),
        }
    }
    // long domain= values
    for labels in [3usize, 30, 42, 60] {
        let d = format!("{}.news.example", (0..labels).map(|i| format!("sub{:04}", i)).collect::<Vec<_>>().join("."));
        let mut fs = FilterSet::new(true);
        fs.add_filters([format!("||ads.example.com^$domain={}", d), format!("||ads2.example.com^$domain=~{}", d)], ParseOptions::default());
        rep.evaluations += 1;
        match guarded(|| fs.into_content_blocking()) {
            Ok(Ok((rules, used))) if rules.len() >= 2 && used.len() == 2 => rep.nontrivial += 1,
            other => rep.mismatch(json!({"what": "long-domain-value", "bytes": d.len(), "observed": format!("{:?}", other.map(|r| r.map(|(a, b)| (a.len(), b.len())).ok())), "allowed": ["2 rules converted"], "devs": []})),
        }
    }
}
#[cfg(not(feature = "unsync"))]
fn content_blocking(_rep: &mut Report) {}

fn redirects(rep: &mut Report) {
    // many resources, one redirect-rule each (distinct priorities), exceptions for all of them / all but one
    let n = 16usize;
    let names: Vec<String> = (0..n).map(|i| format!("res-{}{}", ["q", "b", "x", "d", "m", "a", "z", "c"][i % 8], i)).collect();
    let mut rs: Vec<Resource> = names.iter().map(|nm| { let mut r = res(nm, nm, vec![], 0); r.kind = ResourceType::Mime(MimeType::TextPlain); r }).collect();
    for r in rs.iter_mut() { r.aliases = vec![]; }
    let rules_of = |spared: Option<usize>, k: usize| -> Vec<String> {
        let mut v: Vec<String> = (0..n).map(|i| format!("||ads.example.com^$redirect-rule={}:{}", names[i], i + 1)).collect();
        for i in 0..k { if Some(i) != spared { v.push(format!("@@||ads.example.com^$redirect-rule={}", names[(i * 5) % n])); } }
        v
    };
    let data_url = |nm: &str| { use base64::Engine as _; format!("data:text/plain;base64,{}", base64::engine::general_purpose::STANDARD.encode(nm)) };
    for k in [0usize, 2, 8, 9, 12, 16] {
        let mut e = eng(&rules_of(None, k), true);
        e.use_resources(rs.clone());
        let r = Request::new("https://ads.example.com/x.js", "https://page.example/", "script").unwrap();
        let cancelled: std::collections::BTreeSet<usize> = (0..k).map(|i| (i * 5) % n).collect();
        let want = (0..n).rev().find(|i| !cancelled.contains(i)).map(|i| data_url(&names[i]));
        rep.evaluations += 1;
        let got = guarded(|| e.check_network_request(&r).redirect);
        if got != Ok(want.clone()) { rep.mismatch(json!({"what": "many-redirect-exceptions", "exceptions": k, "observed": format!("{:?}", got), "allowed": [want], "devs": []})); } else { rep.nontrivial += 1; }
    }
    // long URLs: the redirect of a rule without tokens (fallback bucket) and of a rule under the LAST url token
    for params in [0usize, 30, 55, 58, 59, 60] {
        let mut url = String::from("https://cdn.example/path/file.js?");
        for k in 0..params { url.push_str(&format!("k{:02}x=v{:02}y&", k, k)); }
        url.push_str("lasttoken=1");
        for src in ["https://page.example/", "https://n5.n4.n3.n2.n1.page.example/"] {
            let r = match Request::new(&url, src, "script") { Ok(r) => r, Err(_) => continue };
            if r.get_tokens().len() >= 127 { continue; }
            for rule in ["/file\\.js\\?/$redirect=res-q0", "&lasttoken=$redirect-rule=res-q0", "*$script,redirect-rule=res-q0,domain=page.example|other.example"] {
                if params == 0 && rule.starts_with('&') { continue; }
                let mut e = eng(&[rule.to_string()], false);
                e.use_resources(rs.clone());
                rep.evaluations += 1;
                let got = guarded(|| e.check_network_request(&r).redirect);
                if got != Ok(Some(data_url("res-q0"))) { rep.mismatch(json!({"what": "redirect-on-a-long-url", "rule": rule, "url_tokens": r.get_tokens().len(), "observed": format!("{:?}", got), "allowed": [data_url("res-q0")], "devs": []})); } else { rep.nontrivial += 1; }
            }
        }
    }
}

fn csp(rep: &mut Report) {
    // many directives and many exceptions on one site
    let n = 16usize;
    let dir = |i: usize| format!("{}-src 'none' /* {} */", ["script", "worker", "frame", "img", "font", "media", "object", "connect"][i % 8], i);
    for k in [0usize, 1, 2, 7, 16] {
        let mut rules: Vec<String> = (0..n).map(|i| format!("||shop.example^$csp={}", dir(i))).collect();
        let excepted: Vec<usize> = (0..k).map(|j| (j * 11 + 5) % n).collect();
        for j in &excepted { rules.push(format!("@@||shop.example^$csp={}", dir(*j))); }
        let e = eng(&rules, true);
        let r = Request::new("https://shop.example/", "", "document").unwrap();
        let want: std::collections::BTreeSet<String> = (0..n).filter(|i| !excepted.contains(i)).map(dir).collect();
        rep.evaluations += 1;
        let got: Result<std::collections::BTreeSet<String>, String> = guarded(|| e.get_csp_directives(&r).map(|s| s.split(',').map(|x| x.to_string()).collect()).unwrap_or_default());
        if got != Ok(want.clone()) { rep.mismatch(json!({"what": "many-csp-exceptions", "exceptions": k, "observed": format!("{:?}", got).chars().take(500).collect::<String>(), "allowed": [want], "devs": []})); } else { rep.nontrivial += 1; }
    }
}

fn cosmetic_scope(rep: &mut Report) {
    // a chain of hosts, one rule scoped to every level: a page gets the rules of its own level and of every level above
    for base in ["example.com", "example.co.uk", "example.github.io"] {
        let levels: Vec<String> = (0..12).map(|k| deep_host(k, base)).collect();
        let mut rules: Vec<String> = levels.iter().enumerate().map(|(k, h)| format!("{}##.hide-{}", h, k)).collect();
        rules.extend(levels.iter().enumerate().map(|(k, h)| format!("{}#@#.unhide-{}", h, k)));
        rules.extend(levels.iter().enumerate().map(|(k, h)| format!("{}##.style-{}:style(color: red)", h, k)));
        let e = eng(&rules, true);
        for (k, h) in levels.iter().enumerate() {
            rep.evaluations += 1;
            let r = match guarded(|| e.url_cosmetic_resources(&format!("https://{}/", h))) { Ok(r) => r, Err(p) => { rep.mismatch(json!({"what": "deep-page-host", "host": h, "observed": "panic", "panic": p, "devs": []})); continue; } };
            let want_hide: std::collections::BTreeSet<String> = (0..=k).map(|j| format!(".hide-{}", j)).collect();
            let want_ex: std::collections::BTreeSet<String> = (0..=k).map(|j| format!(".unhide-{}", j)).collect();
            let got_hide: std::collections::BTreeSet<String> = r.hide_selectors.iter().cloned().collect();
            let got_ex: std::collections::BTreeSet<String> = r.exceptions.iter().cloned().collect();
            if got_hide != want_hide || got_ex != want_ex || r.procedural_actions.len() != k + 1 {
                rep.mismatch(json!({"what": "deep-page-host", "host": h, "labels": k, "observed": {"hide": got_hide, "exceptions": got_ex, "actions": r.procedural_actions.len()},
                                    "allowed": [{"hide": want_hide, "exceptions": want_ex, "actions": k + 1}], "devs": []}));
            } else { rep.nontrivial += 1; }
        }
    }
    // one rule for very many sites
    for n in [6usize, 40, 190, 600, 2500] {
        let hosts: Vec<String> = (0..n).map(|i| format!("daily-news-{:04}.com", i)).collect();
        let neg: Vec<String> = hosts.iter().map(|h| format!("~{}", h)).collect();
        let rules = vec![format!("{}##.sponsored-banner", hosts.join(",")), format!("{}#@#.legit", hosts.join(",")), format!("{}##div.neg-generic", neg.join(",")),
                         format!("{}##+js(sc, x)", hosts.join(","))];
        let mut e = eng(&rules, true);
        e.use_resources(vec![res("sc.js", "function sc() { }", vec![], 0)]);
        for h in [hosts[0].clone(), hosts[n / 2].clone(), hosts[n - 1].clone(), "elsewhere.com".to_string()] {
            let listed = h != "elsewhere.com";
            rep.evaluations += 1;
            let r = match guarded(|| e.url_cosmetic_resources(&format!("https://www.{}/", h))) { Ok(r) => r, Err(p) => { rep.mismatch(json!({"what": "many-locations", "n": n, "observed": "panic", "panic": p, "devs": []})); continue; } };
            let ok = r.hide_selectors.contains(".sponsored-banner") == listed && r.exceptions.contains(".legit") == listed
                && (r.hide_selectors.contains("div.neg-generic") != listed) && r.injected_script.contains("sc(\"x\")") == listed;
            if !ok {
                rep.mismatch(json!({"what": "many-locations", "n": n, "host": h, "observed": {"hide": r.hide_selectors, "exceptions": r.exceptions, "script": r.injected_script.len()}, "allowed": [listed], "devs": []}));
            } else { rep.nontrivial += 1; }
        }
    }
}

fn reload(rep: &mut Report) {
    // crowded buckets (wildcard and plain rules of one host, no token of their own): the reloaded engine reports the same rule
    for n in [4usize, 15, 16, 17, 40] {
        let mut rules: Vec<String> = (0..n).map(|i| format!("||bigcdn.com/*/w{}x", i)).collect();
        rules.push("||bigcdn.com/q/".to_string());
        rules.extend((0..n).map(|i| format!("||rcdn.net/*/v{}x$redirect-rule=r{}", i, i % 2)));
        rules.push("||rcdn.net/q/$redirect-rule=r1".to_string());
        for opt in [false, true] {
            let mut a = eng(&rules, opt);
            let mut rs = vec![res("r0", "/*wild*/", vec![], 0), res("r1", "/*plain*/", vec![], 0)];
            for r in rs.iter_mut() { r.kind = ResourceType::Mime(MimeType::ApplicationJavascript); }
            a.use_resources(rs.clone());
            let bytes = a.serialize_raw().unwrap();
            let mut b = Engine::new(!opt);
            if b.deserialize(&bytes).is_err() { rep.mismatch(json!({"what": "reload-crowded-bucket", "observed": "load failed", "devs": []})); continue; }
            b.use_resources(rs);
            for i in 0..n {
                for u in [format!("https://bigcdn.com/q/w{}x", i), format!("https://rcdn.net/q/v{}x", i)] {
                    let r = Request::new(&u, "https://page.example/", "script").unwrap();
                    rep.evaluations += 1;
                    let (x, y) = (a.check_network_request(&r), b.check_network_request(&r));
                    if (x.matched, &x.filter, &x.redirect) != (y.matched, &y.filter, &y.redirect) {
                        rep.mismatch(json!({"what": "reload-crowded-bucket", "rules_per_bucket": n + 1, "url": u, "observed": {"filter": y.filter, "redirect": y.redirect}, "allowed": [{"filter": x.filter, "redirect": x.redirect}], "devs": []}));
                    } else { rep.nontrivial += 1; }
                }
            }
        }
    }
}

fn failed_big_load(rep: &mut Report) {
    // a refused load of a LARGE buffer leaves a large engine as it was
    let rules: Vec<String> = (0..40_000).map(|i| format!("||ads{}.tracker-{}.example^", i, i % 977)).chain((0..200).map(|i| format!("site{}.example##.ad-{}", i, i))).chain(["/tagged/x$tag=t1".to_string()]).collect();
    let mut e = Engine::from_rules_parametrised(&rules, ParseOptions::default(), false, true);
    e.use_tags(&["t1"]);
    let good = e.serialize_raw().unwrap();
    let probe = |e: &Engine| -> Vec<bool> {
        let mut v: Vec<bool> = (0..50).map(|i| matched(e, &format!("https://ads{}.tracker-{}.example/p.gif", i * 700, (i * 700) % 977), "https://page.example/", "image").unwrap_or(false)).collect();
        v.push(matched(e, "https://x.example/tagged/x", "https://page.example/", "image").unwrap_or(false));
        v.push(e.tag_exists("t1"));
        v.push(e.url_cosmetic_resources("https://site7.example/").hide_selectors.contains(".ad-7"));
        v
    };
    let before = probe(&e);
    rep.evaluations += 1;
    if before.iter().any(|b| !*b) { rep.mismatch(json!({"what": "big-engine-baseline", "observed": "some probe is false before any load", "devs": []})); }
    let mut smashed_tail = good.clone();
    let l = smashed_tail.len();
    for b in smashed_tail[l - 2000..].iter_mut() { *b = 0xc1; }
    let mut wrong_version = good.clone();
    wrong_version[4] = 0x7f;
    for (name, bad) in [("prefix-of-two-thirds", good[..good.len() * 2 / 3].to_vec()), ("smashed-tail", smashed_tail), ("wrong-version", wrong_version), ("garbage", vec![0x5au8; 3 << 20])] {
        rep.evaluations += 1;
        match guarded(|| e.deserialize(&bad).is_ok()) {
            Ok(false) => {
                if probe(&e) != before { rep.mismatch(json!({"what": "refused-big-load-changed-the-engine", "input": name, "bytes": bad.len(), "observed": "answers differ", "devs": []})); } else { rep.nontrivial += 1; }
            }
            Ok(true) => { rep.count("big_corrupt_image_accepted"); let _ = e.deserialize(&good); }
            Err(p) => rep.mismatch(json!({"what": "refused-big-load", "input": name, "observed": "panic", "panic": p, "devs": []})),
        }
    }
}

fn hot_regex(rep: &mut Report) {
    // one compiled regex consulted very many times (more often than a 16-bit counter can count)
    let e = eng(&["/hot/*/pixel^".to_string(), "||cold.example^".to_string()], true);
    let hit = Request::new("https://cdn.example/hot/a/pixel?x", "https://page.example/", "image").unwrap();
    let other = Request::new("https://cold.example/x", "https://page.example/", "image").unwrap();
    let mut wrong = 0u64;
    let mut panics = 0u64;
    for i in 0..70_000u32 {
        match guarded(|| e.check_network_request(&hit).matched) { Ok(true) => {}, Ok(false) => wrong += 1, Err(_) => panics += 1 }
        if i % 1000 == 0 {
            match guarded(|| (e.check_network_request(&other).matched, e.url_cosmetic_resources("https://page.example/").generichide)) { Ok((true, false)) => {}, Ok(_) => wrong += 1, Err(_) => panics += 1 }
        }
    }
    rep.evaluations += 70_070;
    rep.nontrivial += 70_070 - wrong - panics;
    if wrong + panics > 0 {
        rep.mismatch(json!({"what": "one-regex-used-very-often", "observed": {"wrong_answers": wrong, "panics": panics}, "allowed": [{"wrong_answers": 0, "panics": 0}], "devs": []}));
    }
}

pub fn run(prop: &str, out: &str) {
    let mut rep = Report::default();
    match prop {
        "C01" | "C02" | "C05" => network(&mut rep, prop),
        "C04" => { network(&mut rep, prop); options(&mut rep); }
        "C03" => options(&mut rep),
        "C06" => { history(&mut rep); network(&mut rep, prop); }
        "C07" => history(&mut rep),
        "C11" => lists(&mut rep),
        "C12" => requests(&mut rep),
        "C14" => removeparam(&mut rep),
        "C13" => redirects(&mut rep),
        "C15" => csp(&mut rep),
        "C16" => cosmetic_scope(&mut rep),
        "C08" => reload(&mut rep),
        "C10" => failed_big_load(&mut rep),
        "C17" => cosmetic_lookup(&mut rep),
        "C18" => scriptlets(&mut rep),
        "C19" => { hot_regex(&mut rep); history(&mut rep); }
        "C20" => content_blocking(&mut rep),
        other => { eprintln!("harness: no scale scenarios for {}", other); std::process::exit(2); }
    }
    rep.write(out);
}
