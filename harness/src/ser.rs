//! Serialization properties: C09 (determinism, reload fixpoint) and C10 (corrupt / hostile input).
use crate::util::*;
use adblock::lists::ParseOptions;
use adblock::request::Request;
use adblock::Engine;
use serde_json::{json, Value};
use std::alloc::{GlobalAlloc, Layout, System};
use std::collections::HashSet;
use std::sync::atomic::{AtomicUsize, Ordering};

// ---- counting allocator (C10: "allocating unboundedly") -----------------------------------------
pub struct Counting;
static CUR: AtomicUsize = AtomicUsize::new(0);
static PEAK: AtomicUsize = AtomicUsize::new(0);
static BIGGEST: AtomicUsize = AtomicUsize::new(0);
// ---- rule-address recycling (C06) ---------------------------------------------------------------
// The engine keys its compiled-regex cache by the ADDRESS of a rule (an Arc<NetworkFilter>).  Whether a rule
// allocated later lands on the address of a rule freed earlier is up to the allocator; glibc's does so only
// now and then.  This allocator is the least forgiving one the engine may meet: a block of exactly the size
// of a shared rule is kept on a last-in-first-out stack when freed and handed to the next request of that
// size, so that a cache entry that outlives its rule IS found again by the next rule allocated.
const RULE_ARC: usize = std::mem::size_of::<adblock::filters::network::NetworkFilter>() + 2 * std::mem::size_of::<usize>();
const SLOTS: usize = 1 << 15;
static LOCK: std::sync::atomic::AtomicBool = std::sync::atomic::AtomicBool::new(false);
static mut STACK: [usize; SLOTS] = [0; SLOTS];
static mut TOP: usize = 0;
pub static RECYCLED: AtomicUsize = AtomicUsize::new(0);
#[inline]
fn is_rule(l: &Layout) -> bool {
    l.size() == RULE_ARC && l.align() == std::mem::align_of::<usize>()
}
#[inline]
unsafe fn with_stack<R>(f: impl FnOnce(&mut [usize; SLOTS], &mut usize) -> R) -> R {
    while LOCK.compare_exchange_weak(false, true, Ordering::Acquire, Ordering::Relaxed).is_err() {
        std::hint::spin_loop();
    }
    let r = f(&mut *std::ptr::addr_of_mut!(STACK), &mut *std::ptr::addr_of_mut!(TOP));
    LOCK.store(false, Ordering::Release);
    r
}

unsafe impl GlobalAlloc for Counting {
    unsafe fn alloc(&self, l: Layout) -> *mut u8 {
        let mut p = std::ptr::null_mut();
        if is_rule(&l) {
            p = with_stack(|st, top| if *top > 0 { *top -= 1; st[*top] as *mut u8 } else { std::ptr::null_mut() });
            if !p.is_null() {
                RECYCLED.fetch_add(1, Ordering::Relaxed);
            }
        }
        if p.is_null() {
            p = System.alloc(l);
        }
        if !p.is_null() {
            let c = CUR.fetch_add(l.size(), Ordering::Relaxed) + l.size();
            PEAK.fetch_max(c, Ordering::Relaxed);
            BIGGEST.fetch_max(l.size(), Ordering::Relaxed);
        }
        p
    }
    unsafe fn dealloc(&self, p: *mut u8, l: Layout) {
        CUR.fetch_sub(l.size(), Ordering::Relaxed);
        if is_rule(&l) && with_stack(|st, top| if *top < SLOTS { st[*top] = p as usize; *top += 1; true } else { false }) {
            return;
        }
        System.dealloc(p, l)
    }
    unsafe fn realloc(&self, p: *mut u8, l: Layout, n: usize) -> *mut u8 {
        if is_rule(&l) || (n == RULE_ARC && l.align() == std::mem::align_of::<usize>()) {
            // keep the recycling stack consistent: move by hand
            let nl = Layout::from_size_align_unchecked(n, l.align());
            let q = self.alloc(nl);
            if !q.is_null() {
                std::ptr::copy_nonoverlapping(p, q, l.size().min(n));
                self.dealloc(p, l);
            }
            return q;
        }
        let q = System.realloc(p, l, n);
        if !q.is_null() {
            if n >= l.size() {
                let c = CUR.fetch_add(n - l.size(), Ordering::Relaxed) + (n - l.size());
                PEAK.fetch_max(c, Ordering::Relaxed);
                BIGGEST.fetch_max(n, Ordering::Relaxed);
            } else {
                CUR.fetch_sub(l.size() - n, Ordering::Relaxed);
            }
        }
        q
    }
}
fn alloc_mark() -> usize {
    let c = CUR.load(Ordering::Relaxed);
    PEAK.store(c, Ordering::Relaxed);
    BIGGEST.store(0, Ordering::Relaxed);
    c
}
fn alloc_peak_since(mark: usize) -> usize {
    PEAK.load(Ordering::Relaxed).saturating_sub(mark)
}

pub fn fnv(bytes: &[u8]) -> String {
    let mut h: u64 = 0xcbf29ce484222325;
    for b in bytes {
        h ^= *b as u64;
        h = h.wrapping_mul(0x100000001b3);
    }
    format!("{:016x}-{}", h, bytes.len())
}

// ---- rule lists ------------------------------------------------------------------------------------
fn read_list(path: &str) -> Vec<String> {
    std::fs::read_to_string(path)
        .unwrap_or_default()
        .lines()
        .map(|l| l.to_string())
        .filter(|l| !l.is_empty() && !l.starts_with('!') && !l.starts_with('['))
        .collect()
}

/// A synthetic list built so that every container of the image gets many entries, with the
/// shapes that make ordering visible: many rules sharing one token but not fusable (different
/// type options), fusable groups, tokenless multi-domain rules shared between buckets, tagged
/// rules, and every kind of cosmetic rule.
pub fn synthetic_list(rng: &mut Rng, n: usize) -> Vec<String> {
    let types = ["image", "script", "stylesheet", "font", "media", "object", "xmlhttprequest", "websocket", "ping", "other", "subdocument"];
    let mut v = vec![];
    for t in types.iter() {
        v.push(format!("/adframe.${}", t));
        v.push(format!("/adframe.$~{}", t));
        v.push(format!("-banner-$third-party,{}", t));
    }
    for i in 0..n {
        let kind = rng.below(N_KINDS);
        v.push(rule_of_kind(kind, rng, i, n));
    }
    v.extend(complete_family(rng, "zzfamily"));
    v
}

/// Rules that all share one bucket (their only usable token) and ALL fuse: several groups (one per option
/// mask) of two or three members each, and nothing else in the bucket.  The order in which the fused rules
/// of such a bucket are written must not depend on the hash seed.
fn complete_family(rng: &mut Rng, token: &str) -> Vec<String> {
    let types = ["image", "script", "stylesheet", "font", "media", "object", "xmlhttprequest", "websocket", "ping", "other", "subdocument"];
    let groups = 2 + rng.below(9);
    let mut v = vec![];
    for g in 0..groups {
        for m in 0..(2 + rng.below(2)) {
            v.push(format!("/{}/m{}${}", token, m, types[g]));
        }
    }
    v
}

const N_KINDS: usize = 26;

/// one rule of the given kind (kinds cover every container of the serialized image)
fn rule_of_kind(kind: usize, rng: &mut Rng, i: usize, n: usize) -> String {
    let types = ["image", "script", "stylesheet", "font", "media", "object", "xmlhttprequest", "websocket", "ping", "other", "subdocument"];
    let w = format!("w{}", rng.below(40));
    match kind {
        0 => format!("/{}/ads/{}.", w, i),
        1 => format!("||{}.example.com^", w),
        2 => format!("||{}.example.net^$third-party", w),
        3 => format!("@@||{}.example.com/ok{}", w, i),
        4 => format!("*${},domain=site{}.com|shop{}.com", types[rng.below(types.len())], rng.below(6), rng.below(6)),
        5 => format!("*${},domain=site{}.com", types[rng.below(types.len())], rng.below(6)),
        6 => format!("/track{}^$tag=t{}", i, rng.below(3)),
        7 => format!("||{}.example.org^$csp=script-src {}", w, i),
        8 => format!("||{}.example.org^$redirect=noop.js:{}", w, rng.below(5)),
        9 => format!("##.ad-{}", i),
        10 => format!("###banner-{} > .x{}", rng.below(30), i),
        11 => format!("site{}.com,shop{}.*##.promo-{}", rng.below(6), rng.below(6), i),
        12 => format!("site{}.com#@#.ad-{}", rng.below(6), rng.below(n.max(1))),
        13 => format!("site{}.com##.box{}:style(color: red)", rng.below(6), i),
        14 => format!("site{}.com##+js(sc{}, a{})", rng.below(6), rng.below(4), i),
        15 => format!("site{}.com#@#+js(sc{}, a{})", rng.below(6), rng.below(4), rng.below(n.max(1))),
        16 => format!("##div[data-ad=\"{}\"]", i),
        17 => format!("site{}.com##.rm{}:remove()", rng.below(6), i),
        // procedural / action rules and their exceptions (the exception containers are separate ones)
        18 => format!("site{}.com##div:has-text(Sponsored {})", rng.below(6), i),
        19 => format!("site{}.com#@#div:has-text(Sponsored {})", rng.below(6), rng.below(n.max(1))),
        20 => format!("site{}.com#@#.rm{}:remove()", rng.below(6), rng.below(n.max(1))),
        21 => format!("site{}.com#@#.box{}:style(color: red)", rng.below(6), rng.below(n.max(1))),
        22 => format!("site{}.com##.at{}:remove-attr(href)", rng.below(6), i),
        23 => format!("site{}.com##.cl{}:remove-class(c{})", rng.below(6), i, i),
        24 => format!("@@||{}.example.com^$generichide", w),
        _ => format!("||{}.example.com^$important,tag=t{}", w, rng.below(3)),
    }
}

/// A small list drawn from only a few kinds of rules: most containers of the image are EMPTY, in
/// every combination over the runs (a loader that derives one container from another, or treats
/// "empty" as "absent", is only visible on such lists).
pub fn sparse_list(rng: &mut Rng) -> Vec<String> {
    if rng.chance(1, 6) {
        return complete_family(rng, "zzsparse");
    }
    let n_kinds = 1 + rng.below(3);
    let kinds: Vec<usize> = (0..n_kinds).map(|_| rng.below(N_KINDS)).collect();
    let n = 1 + rng.below(6);
    (0..n).map(|i| { let k = kinds[rng.below(kinds.len())]; rule_of_kind(k, rng, i, n) }).collect()
}

fn sample_lines(all: &[String], rng: &mut Rng, n: usize) -> Vec<String> {
    if all.is_empty() {
        return vec![];
    }
    (0..n).map(|_| all[rng.below(all.len())].clone()).collect()
}

pub fn build(rules: &[String], debug: bool, opt: bool) -> Engine {
    let js: Vec<&String> = rules.iter().filter(|r| r.contains("+js(")).collect();
    if js.is_empty() {
        return Engine::from_rules_parametrised(rules, ParseOptions::default(), debug, opt);
    }
    // overlapping lists: a second, trusted list repeats the scriptlet rules of the first (the same rule text under
    // two permission masks is two entries of the per-host table, before and after a reload)
    let mut fs = adblock::lists::FilterSet::new(debug);
    fs.add_filters(rules, ParseOptions::default());
    fs.add_filters(js, ParseOptions { permissions: adblock::resources::PermissionMask::from_bits(1), ..ParseOptions::default() });
    Engine::from_filter_set(fs, opt)
}

/// child-process entry: serialize the list in the file and print the digest
pub fn c09_child(path: &str, debug: bool, opt: bool) {
    let rules: Vec<String> = std::fs::read_to_string(path).unwrap_or_default().lines().map(|s| s.to_string()).collect();
    let e = build(&rules, debug, opt);
    println!("{}", fnv(&e.serialize_raw().unwrap()));
}

/// M3 driver for C09: events {ev:"ser", cfg, how, digest}
pub fn record_c09(out: &str, seed: u64, n_lists: usize, children: usize, workdir: &str) {
    let mut rng = Rng::new(seed);
    let mut w = LineWriter::create(out);
    let easy = read_list("/repo/data/easylist.to/easylist/easylist.txt");
    let ubo = read_list("/repo/data/uBlockOrigin/filters.txt");
    let exe = std::env::current_exe().unwrap();
    let mut samples = vec![];
    let mut distinct = HashSet::new();
    // after the big lists, 25x as many sparse lists (in-process builds and reloads only)
    let n_sparse = 25 * n_lists;
    let mut sparse_done = 0u64;
    for li in 0..(n_lists + n_sparse) {
        let is_sparse = li >= n_lists;
        let children = if is_sparse { 0 } else { children };
        let rules = if is_sparse { sparse_done += 1; sparse_list(&mut rng) } else { match li % 3 {
            0 => { let k = 150 + rng.below(250); synthetic_list(&mut rng, k) }
            1 => sample_lines(&easy, &mut rng, 1500),
            _ => sample_lines(&ubo, &mut rng, 1500),
        } };
        if rules.is_empty() {
            continue;
        }
        let path = format!("{}/c09_list_{}.txt", workdir, li);
        std::fs::write(&path, rules.join("\n")).unwrap();
        for (debug, opt) in [(false, true), (true, false), (true, true)] {
            let cfg = format!("L{}-d{}-o{}", li, debug as u8, opt as u8);
            let mut first: Option<Vec<u8>> = None;
            for k in 0..3 {
                let bytes = match guarded(|| build(&rules, debug, opt).serialize_raw().unwrap()) {
                    Ok(b) => b,
                    Err(p) => {
                        w.put(&json!({"ev": "ser", "cfg": cfg, "how": "fresh", "digest": format!("panic:{}", p)}));
                        continue;
                    }
                };
                w.put(&json!({"ev": "ser", "cfg": cfg, "how": format!("fresh{}", k), "digest": fnv(&bytes), "len": bytes.len()}));
                distinct.insert(fnv(&bytes));
                if first.is_none() {
                    first = Some(bytes);
                }
            }
            for k in 0..children {
                let o = std::process::Command::new(&exe)
                    .args(["c09child", &path, if debug { "1" } else { "0" }, if opt { "1" } else { "0" }])
                    .output();
                let d = match o {
                    Ok(o) if o.status.success() => String::from_utf8_lossy(&o.stdout).trim().to_string(),
                    _ => "child-failed".to_string(),
                };
                w.put(&json!({"ev": "ser", "cfg": cfg, "how": format!("child{}", k), "digest": d}));
            }
            // reload fixpoint, two generations
            if let Some(b) = first {
                let mut cur = b;
                for gen in 1..=2 {
                    let r = guarded(|| {
                        let mut e = Engine::new(opt);
                        e.deserialize(&cur).map(|_| e.serialize_raw().unwrap())
                    });
                    match r {
                        Ok(Ok(b2)) => {
                            w.put(&json!({"ev": "ser", "cfg": cfg, "how": format!("reload{}", gen), "digest": fnv(&b2)}));
                            cur = b2;
                        }
                        Ok(Err(_)) => w.put(&json!({"ev": "ser", "cfg": cfg, "how": format!("reload{}", gen), "digest": "load-error"})),
                        Err(p) => w.put(&json!({"ev": "ser", "cfg": cfg, "how": format!("reload{}", gen), "digest": format!("panic:{}", p)})),
                    }
                }
            }
            if samples.len() < 3 {
                samples.push(json!({"cfg": cfg, "rules": rules.len(), "first_rules": rules.iter().take(4).collect::<Vec<_>>()}));
            }
        }
        let _ = std::fs::remove_file(&path);
    }
    let events = w.n;
    w.finish();
    println!("{}", json!({"events": events, "nontrivial": distinct.len(), "samples": samples, "counters": {"sparse_lists": sparse_done}}));
}

// ---- C10 --------------------------------------------------------------------------------------------

const LIST_A: &[&str] = &[
    "||ads.example.com^", "/banner/*/img^", "@@||ads.example.com/ok^", "||t.example.net^$tag=t1", "/re[0-9]+x/$important",
    "||r.example.com^$redirect=noop.js", "||c.example.com^$csp=script-src 'none'", "*$image,domain=a.com|b.com",
    "a.com##.ad", "a.com#@#.ok", "##.generic", "###gid > .x", "a.com##.s:style(color: red)", "b.*##+js(sc, 1)", "@@||g.example.com^$generichide",
];
// rules whose stored strings sit at the edge of what the matchers assume: one-character and non-ASCII
// patterns, a one-label hostname anchor, complete regexes.  None of them matches a battery request, so
// every one of them is evaluated by every query (a matching rule would end the bucket scan early).
const LIST_C: &[&str] = &["é*y/", "|x|", "é", "||a^", "/é[0-9]/", "|é^", "qq*", "a.com##é", "é.com##.c", "é.com#@#.c"];
const LIST_B: &[&str] = &["||other.example.org^", "/zzz^$tag=t1", "b.com##.bb", "||ads.example.com^$important"];

fn battery(e: &Engine) -> Result<String, String> {
    guarded(|| {
        let mut out = String::new();
        for (u, s, t) in [
            ("https://ads.example.com/x", "https://a.com/", "script"),
            ("https://ads.example.com/ok/", "https://a.com/", "script"),
            ("https://t.example.net/x", "https://a.com/", "image"),
            ("https://x.com/banner/1/img/", "https://b.com/", "image"),
            ("https://x.com/re123x/", "https://b.com/", "script"),
            ("https://r.example.com/x", "https://b.com/", "script"),
            ("https://c.example.com/", "https://c.example.com/", "document"),
            ("https://other.example.org/", "https://a.com/", "script"),
            ("https://x.com/zzz/", "https://a.com/", "script"),
            ("https://x.com/i.png", "https://a.com/", "image"),
        ] {
            if let Ok(r) = Request::new(u, s, t) {
                let v = e.check_network_request(&r);
                out += &format!("{}{}{}{:?}{:?}|", v.matched as u8, v.important as u8, v.exception.is_some() as u8, v.redirect.is_some(), e.get_csp_directives(&r));
            }
        }
        for u in ["https://a.com/", "https://b.com/", "https://g.example.com/"] {
            let c = e.url_cosmetic_resources(u);
            let mut h: Vec<_> = c.hide_selectors.iter().cloned().collect();
            h.sort();
            let mut x: Vec<_> = c.exceptions.iter().cloned().collect();
            x.sort();
            let mut p: Vec<_> = c.procedural_actions.iter().cloned().collect();
            p.sort();
            out += &format!("{:?}{:?}{:?}{}{}|", h, x, p, c.injected_script.len(), c.generichide);
            let mut s = e.hidden_class_id_selectors(["generic", "ad"], ["gid"], &c.exceptions);
            s.sort();
            out += &format!("{:?}|", s);
        }
        out += &format!("tags:{}{}", e.tag_exists("t1"), e.tag_exists("t2"));
        fnv(out.as_bytes())
    })
}

fn engine_of(list: &[&str], tags: &[&str]) -> Engine {
    let rules: Vec<String> = list.iter().map(|s| s.to_string()).collect();
    let mut e = build(&rules, true, true);
    e.use_tags(tags);
    e
}

/// M3 driver for C10: one long-lived target engine; every fault of the enumeration is loaded into
/// it, followed by the battery and a re-serialization; valid loads are interleaved.
pub fn record_c10(out: &str, seed: u64, thorough: bool) {
    let mut rng = Rng::new(seed);
    let mut w = LineWriter::create(out);
    let img_a = engine_of(LIST_A, &[]).serialize_raw().unwrap();
    let img_b = engine_of(LIST_B, &[]).serialize_raw().unwrap();
    let img_c = engine_of(LIST_C, &[]).serialize_raw().unwrap();
    let mut ec = Engine::new(true);
    ec.use_tags(&["t1"]);
    ec.deserialize(&img_c).unwrap();
    let dc = battery(&ec).unwrap();
    // what a valid load of A / B into an engine with tags {t1} answers
    let mut ea = Engine::new(true);
    ea.use_tags(&["t1"]);
    ea.deserialize(&img_a).unwrap();
    let da = battery(&ea).unwrap();
    let mut eb = Engine::new(true);
    eb.use_tags(&["t1"]);
    eb.deserialize(&img_b).unwrap();
    let db = battery(&eb).unwrap();
    w.put(&json!({"ev": "images", "A": da, "B": db, "C": dc, "lenA": img_a.len(), "lenB": img_b.len(), "lenC": img_c.len()}));

    let mut target = Engine::new(true);
    target.use_tags(&["t1"]);
    target.deserialize(&img_b).unwrap();
    w.put(&json!({"ev": "load", "img": "B", "fault": "none", "len": img_b.len(), "result": "ok", "peak": 0}));
    w.put(&json!({"ev": "battery", "digest": battery(&target).unwrap_or_else(|_| "panic".into())}));

    // the fault enumeration
    let mut faults: Vec<(String, Vec<u8>)> = vec![];
    for (name, img) in [("A", &img_a), ("B", &img_b), ("C", &img_c)] {
        for n in 0..img.len() {
            faults.push((format!("{}:prefix:{}", name, n), img[..n].to_vec()));
        }
        let stride = if thorough || name != "B" { 1 } else { 3 };
        for i in (0..img.len()).step_by(stride) {
            for bit in 0..8 {
                let mut b = img.to_vec();
                b[i] ^= 1 << bit;
                faults.push((format!("{}:flip:{}:{}", name, i, bit), b));
            }
        }
        // byte substitutions at structural offsets (msgpack markers / lengths are bytes >= 0x80) and a sample elsewhere
        for i in 0..img.len() {
            if img[i] >= 0x80 || rng.chance(1, if thorough { 4 } else { 16 }) {
                for v in [0x00u8, 0x7f, 0x80, 0x90, 0x9f, 0xa0, 0xbf, 0xc0, 0xc4, 0xc6, 0xcf, 0xd9, 0xdb, 0xdc, 0xdd, 0xde, 0xdf, 0xff] {
                    if v != img[i] {
                        let mut b = img.to_vec();
                        b[i] = v;
                        faults.push((format!("{}:subst:{}:{}", name, i, v), b));
                    }
                }
            }
        }
        // structure-preserving corruption of embedded JSON text (stored procedural / action rules): every
        // balanced [...] / {...} span inside a printable run is hollowed out with blanks, so that all length
        // prefixes of the container format stay valid while the JSON value changes shape
        for open in 0..img.len() {
            let (o, c) = match img[open] { b'[' => (b'[', b']'), b'{' => (b'{', b'}'), _ => continue };
            let mut depth = 0i32;
            let mut close = None;
            for j in open..img.len().min(open + 300) {
                if img[j] < 0x20 || img[j] > 0x7e { break; }
                if img[j] == o { depth += 1; }
                if img[j] == c { depth -= 1; if depth == 0 { close = Some(j); break; } }
            }
            if let Some(cl) = close {
                if cl > open + 1 {
                    let mut b = img.to_vec();
                    for x in b[open + 1..cl].iter_mut() { *x = b' '; }
                    faults.push((format!("{}:hollow:{}:{}", name, open, cl), b));
                    // and the two brackets swapped for the other kind: an object where a list is expected
                    let mut b2 = img.to_vec();
                    b2[open] = if o == b'[' { b'{' } else { b'[' };
                    b2[cl] = if c == b']' { b'}' } else { b']' };
                    for x in b2[open + 1..cl].iter_mut() { *x = b' '; }
                    faults.push((format!("{}:hollow-swap:{}:{}", name, open, cl), b2));
                }
            }
        }
        // multi-byte corruptions
        for k in 0..(if thorough { 3000 } else { 300 }) {
            let mut b = img.to_vec();
            for _ in 0..(2 + rng.below(6)) {
                let i = rng.below(b.len());
                b[i] = rng.next() as u8;
            }
            if rng.chance(1, 4) {
                let cut = rng.below(b.len());
                b.truncate(cut);
            }
            faults.push((format!("{}:multi:{}", name, k), b));
        }
    }
    // header variants and arbitrary bytes
    let magic = &img_a[..4];
    faults.push(("hdr:empty".into(), vec![]));
    faults.push(("hdr:magic-only".into(), magic.to_vec()));
    for v in [1u8, 2, 0x7f, 0xff] {
        let mut b = magic.to_vec();
        b.push(v);
        b.extend_from_slice(&img_a[5..]);
        faults.push((format!("hdr:version:{}", v), b));
    }
    faults.push(("hdr:magic+version".into(), img_a[..5].to_vec()));
    faults.push(("hdr:gzip".into(), vec![31, 139, 8, 0, 0, 0, 0, 0, 0, 255, 1, 2, 3]));
    for k in 0..(if thorough { 20000 } else { 2000 }) {
        let n = rng.below(64);
        let mut b: Vec<u8> = (0..n).map(|_| rng.next() as u8).collect();
        if rng.chance(1, 2) {
            let mut h = img_a[..5].to_vec();
            h.append(&mut b);
            b = h;
        }
        faults.push((format!("rand:{}", k), b));
    }

    let mut nontrivial = 0u64;
    let mut samples = vec![];
    let mut accepted = 0u64;
    let mut over_bound = 0u64;
    let current = format!("{}.current", out);
    for (fi, (name, bytes)) in faults.iter().enumerate() {
        // if the process is killed by the load (allocation failure, stack overflow: not catchable), this file says by which input
        let _ = std::fs::write(&current, json!({"fault": name, "len": bytes.len(), "hex": bytes.iter().take(4096).map(|b| format!("{:02x}", b)).collect::<String>()}).to_string());
        let mark = alloc_mark();
        let r = guarded(|| target.deserialize(bytes).is_ok());
        let peak = alloc_peak_since(mark);
        if peak > 67108864 + 4096 * bytes.len() {
            over_bound += 1;
        }
        if over_bound > 8 {
            // the property is already violated several times over; huge allocations make every further
            // fault take seconds, so the enumeration stops here (the violations are in the trace)
            break;
        }
        let result = match &r {
            Ok(true) => "ok",
            Ok(false) => "err",
            Err(_) => "panic",
        };
        if result == "ok" {
            accepted += 1;
        }
        let same_as = if bytes == &img_a { "A" } else if bytes == &img_b { "B" } else if bytes == &img_c { "C" } else { "" };
        w.put(&json!({"ev": "load", "img": same_as, "fault": name, "len": bytes.len(), "result": result, "peak": peak}));
        nontrivial += 1;
        let d = battery(&target).unwrap_or_else(|p| format!("panic:{}", p));
        w.put(&json!({"ev": "battery", "digest": d, "fault": name}));
        let rs = match guarded(|| target.serialize_raw().is_ok()) {
            Ok(true) => "ok",
            Ok(false) => "err",
            Err(_) => "panic",
        };
        w.put(&json!({"ev": "reser", "result": rs, "fault": name}));
        if samples.len() < 4 && fi % 997 == 3 {
            samples.push(json!({"fault": name, "len": bytes.len(), "result": result}));
        }
        // interleave valid loads so that sequences err* ok-corrupt err* valid ... are all exercised
        if result != "err" || fi % 50 == 49 {
            let (nm, img) = if fi % 2 == 0 { ("A", &img_a) } else { ("B", &img_b) };
            let ok = guarded(|| target.deserialize(img).is_ok()).unwrap_or(false);
            w.put(&json!({"ev": "load", "img": nm, "fault": "none", "len": img.len(), "result": if ok { "ok" } else { "err" }, "peak": 0}));
            w.put(&json!({"ev": "battery", "digest": battery(&target).unwrap_or_else(|p| format!("panic:{}", p))}));
        }
    }
    let _ = std::fs::remove_file(&current);
    let events = w.n;
    w.finish();
    println!("{}", json!({"events": events, "nontrivial": nontrivial, "samples": samples,
                          "counters": {"faults": faults.len(), "accepted_by_loader": accepted}}));
}
