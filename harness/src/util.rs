//! Shared helpers: panic capture (a panic in code under test is data), a small RNG,
//! JSON-lines I/O, result accumulation.
use serde_json::{json, Value};
use std::io::{BufRead, BufReader, Write};
use std::panic::{catch_unwind, AssertUnwindSafe};

pub fn quiet_panics() {
    if std::env::var("VERIF_LOUD").is_ok() {
        return;
    }
    std::panic::set_hook(Box::new(|_| {}));
}

/// Run code under test; a panic becomes Err(message).
pub fn guarded<T>(f: impl FnOnce() -> T) -> Result<T, String> {
    match catch_unwind(AssertUnwindSafe(f)) {
        Ok(v) => Ok(v),
        Err(e) => {
            let msg = if let Some(s) = e.downcast_ref::<&str>() {
                s.to_string()
            } else if let Some(s) = e.downcast_ref::<String>() {
                s.clone()
            } else {
                "panic".to_string()
            };
            Err(msg)
        }
    }
}

/// SplitMix64
pub struct Rng(pub u64);
impl Rng {
    pub fn new(seed: u64) -> Self {
        Rng(seed ^ 0x9E3779B97F4A7C15)
    }
    pub fn next(&mut self) -> u64 {
        self.0 = self.0.wrapping_add(0x9E3779B97F4A7C15);
        let mut z = self.0;
        z = (z ^ (z >> 30)).wrapping_mul(0xBF58476D1CE4E5B9);
        z = (z ^ (z >> 27)).wrapping_mul(0x94D049BB133111EB);
        z ^ (z >> 31)
    }
    pub fn below(&mut self, n: usize) -> usize {
        if n == 0 {
            0
        } else {
            (self.next() % n as u64) as usize
        }
    }
    pub fn chance(&mut self, num: usize, den: usize) -> bool {
        self.below(den) < num
    }
    pub fn pick<T: Copy>(&mut self, xs: &[T]) -> T {
        xs[self.below(xs.len())]
    }
}

pub fn read_lines(path: &str) -> Vec<Value> {
    let f = std::fs::File::open(path).unwrap_or_else(|e| {
        eprintln!("harness: cannot open {}: {}", path, e);
        std::process::exit(2)
    });
    let mut out = vec![];
    for line in BufReader::new(f).lines() {
        let line = line.unwrap();
        let t = line.trim();
        if t.is_empty() {
            continue;
        }
        match serde_json::from_str::<Value>(t) {
            Ok(v) => out.push(v),
            Err(e) => {
                eprintln!("harness: bad json line in {}: {} ({})", path, e, &t[..t.len().min(120)]);
                std::process::exit(2)
            }
        }
    }
    out
}

pub struct LineWriter {
    w: std::io::BufWriter<std::fs::File>,
    pub n: usize,
}
impl LineWriter {
    pub fn create(path: &str) -> Self {
        let f = std::fs::File::create(path).unwrap_or_else(|e| {
            eprintln!("harness: cannot create {}: {}", path, e);
            std::process::exit(2)
        });
        LineWriter { w: std::io::BufWriter::new(f), n: 0 }
    }
    pub fn put(&mut self, v: &Value) {
        serde_json::to_writer(&mut self.w, v).unwrap();
        self.w.write_all(b"\n").unwrap();
        self.n += 1;
    }
    pub fn finish(mut self) {
        self.w.flush().unwrap();
    }
}

/// Accumulates what a replay covered and where it disagreed.
#[derive(Default)]
pub struct Report {
    pub evaluations: u64,
    pub nontrivial: u64,
    pub skipped: u64,
    pub drift: u64,
    pub mismatches: Vec<Value>,
    pub drift_samples: Vec<Value>,
    pub samples: Vec<Value>,
    pub notes: Vec<String>,
    pub counters: std::collections::BTreeMap<String, u64>,
}
impl Report {
    pub fn count(&mut self, k: &str) {
        *self.counters.entry(k.to_string()).or_insert(0) += 1;
    }
    pub fn add(&mut self, k: &str, n: u64) {
        *self.counters.entry(k.to_string()).or_insert(0) += n;
    }
    /// Keeps every kind of disagreement visible: at most 40 records per (what, devs, model==observed)
    /// signature, so that thousands of instances of one known finding cannot crowd out another kind.
    pub fn mismatch(&mut self, v: Value) {
        let explained = v.get("model").map(|m| Some(m) == v.get("observed")).unwrap_or(false);
        let key = format!("mm:{}:{}:{}", v.get("what").map(|w| w.to_string()).unwrap_or_default(),
                          v.get("devs").map(|w| w.to_string()).unwrap_or_default(), explained);
        let n = *self.counters.get(&key).unwrap_or(&0);
        if n < 40 && self.mismatches.len() < 20000 {
            self.mismatches.push(v);
        }
        self.count(&key);
        self.count("mismatches_total");
    }
    pub fn drift(&mut self, v: Value) {
        self.drift += 1;
        if self.drift_samples.len() < 20 {
            self.drift_samples.push(v);
        }
    }
    pub fn sample(&mut self, v: Value) {
        if self.samples.len() < 6 {
            self.samples.push(v);
        }
    }
    pub fn to_json(&self) -> Value {
        json!({
            "evaluations": self.evaluations,
            "nontrivial": self.nontrivial,
            "skipped": self.skipped,
            "drift": self.drift,
            "mismatches": self.mismatches,
            "drift_samples": self.drift_samples,
            "samples": self.samples,
            "notes": self.notes,
            "counters": self.counters,
        })
    }
    pub fn write(&self, path: &str) {
        std::fs::write(path, serde_json::to_vec(&self.to_json()).unwrap()).unwrap_or_else(|e| {
            eprintln!("harness: cannot write {}: {}", path, e);
            std::process::exit(2)
        });
    }
}

pub fn strs(v: &Value) -> Vec<String> {
    v.as_array()
        .map(|a| a.iter().map(|x| x.as_str().unwrap_or("").to_string()).collect())
        .unwrap_or_default()
}

pub fn bools(v: &Value) -> Vec<bool> {
    v.as_array()
        .map(|a| a.iter().map(|x| x.as_bool().unwrap_or(false)).collect())
        .unwrap_or_default()
}

pub fn allowed_has(allowed: &Value, observed: &Value) -> bool {
    allowed.as_array().map(|a| a.iter().any(|x| x == observed)).unwrap_or(false)
}
