"""Shared machinery of /verif/bin/check: harness build, TLC runs, export parsing,
classification against known findings, evidence files.

Exit codes of a check: 0 = property held on everything explored (KNOWN-FINDING lines
allowed), 1 = VIOLATION line printed, 2 = tool error / timeout / vacuity guard.
"""
import json, os, re, subprocess, sys, time, shutil, hashlib

VERIF = os.path.dirname(os.path.dirname(os.path.abspath(__file__)))
SPEC = os.path.join(VERIF, "spec")
WORK = os.path.join(VERIF, ".work")
HARNESS_DIR = os.path.join(VERIF, "harness")
HARNESS = os.path.join(HARNESS_DIR, "target", "release", "verif-harness")
HARNESS_SYNC = os.path.join(HARNESS_DIR, "target-sync", "release", "verif-harness")
REPO = "/repo"
KNOWN = os.path.join(VERIF, "known_findings.json")


class ToolError(Exception):
    pass


def log(*a):
    print(*a, file=sys.stderr, flush=True)


def workdir(pid):
    d = os.path.join(WORK, pid)
    shutil.rmtree(d, ignore_errors=True)
    os.makedirs(d, exist_ok=True)
    return d


def build_harness(sync=False):
    """Rebuild the harness (and therefore /repo's current working tree) offline."""
    env = dict(os.environ)
    env["CARGO_NET_OFFLINE"] = "true"
    cmd = ["cargo", "build", "--release", "--offline"]
    if sync:
        cmd += ["--no-default-features", "--features", "sync", "--target-dir", "target-sync"]
    t0 = time.time()
    p = subprocess.run(cmd, cwd=HARNESS_DIR, env=env, stdout=subprocess.PIPE, stderr=subprocess.STDOUT, text=True)
    if p.returncode != 0:
        log(p.stdout[-4000:])
        raise ToolError("harness build failed (is /repo's working tree compilable?)")
    log("[build] harness%s ok in %.1fs" % (" (sync)" if sync else "", time.time() - t0))
    return HARNESS_SYNC if sync else HARNESS


def run_harness(args, timeout=3600, sync=False, env=None):
    exe = HARNESS_SYNC if sync else HARNESS
    # tools/coverage: an instrumented copy of the default-feature harness (never set by registered commands)
    if not sync and os.environ.get("VERIF_HARNESS_BIN"):
        exe = os.environ["VERIF_HARNESS_BIN"]
    e = dict(os.environ)
    if env:
        e.update(env)
    try:
        p = subprocess.run([exe] + args, stdout=subprocess.PIPE, stderr=subprocess.PIPE, text=True, timeout=timeout, env=e)
    except subprocess.TimeoutExpired:
        raise ToolError("harness timed out: %s" % " ".join(args))
    if p.returncode != 0:
        log(p.stderr[-3000:])
        raise ToolError("harness failed (%d): %s" % (p.returncode, " ".join(args)))
    return p.stdout


TLC_JAR = "/opt/veriftools/tla/tla2tools.jar:/opt/veriftools/tla/CommunityModules-deps.jar"


def run_tlc(module, cfg_text, wd, name, workers=8, timeout=1800, env=None, extra=None, heap="8g",
            simulate=None, deque=False, coverage=False):
    """Run TLC on spec/<module>.tla with the given cfg text.  Returns a dict with counts,
    exported JSON values (lines printed by PrintT(ToJson(..))), and the error text if any."""
    cfg = os.path.join(wd, name + ".cfg")
    with open(cfg, "w") as f:
        f.write(cfg_text)
    out = os.path.join(wd, name + ".out")
    meta = os.path.join(wd, name + ".meta")
    jopts = "-Xss1g"
    if deque:
        jopts += " -Dtlc2.tool.queue.IStateQueue=StateDeque"
    e = dict(os.environ)
    e["JAVA_TOOL_OPTIONS"] = jopts
    if env:
        e.update(env)
    cmd = ["timeout", str(timeout), "java", "-XX:+UseParallelGC", "-Xss1g", "-Xmx" + heap,
           "-Dfile.encoding=UTF-8", "-Dstdout.encoding=UTF-8", "-Dsun.stdout.encoding=UTF-8", "-cp", TLC_JAR, "tlc2.TLC",
           "-workers", str(workers), "-metadir", meta, "-cleanup", "-noGenerateSpecTE", "-config", cfg]
    if coverage:
        # NB: -coverage disables TLC's caching of LET definitions (10x slower on the fact tables)
        cmd += ["-coverage", "1"]
    if simulate:
        cmd += ["-simulate", simulate]
    if extra:
        cmd += extra
    cmd += [os.path.join(SPEC, module + ".tla")]
    # A TLC run whose input is the specification alone (no recorded trace) depends on nothing in /repo: its output
    # is reused by later checks of the same session when specification, module, configuration and options are
    # byte-identical (several checks enumerate the same universe; each replays it on the code again).
    ckey = None
    if env is None and not os.environ.get("VERIF_NO_TLC_CACHE"):
        h = hashlib.sha256()
        for fn in sorted(os.listdir(SPEC)):
            if fn.endswith(".tla"):
                h.update(fn.encode()); h.update(open(os.path.join(SPEC, fn), "rb").read())
        h.update(repr((module, cfg_text, simulate, extra, deque, coverage)).encode())
        ckey = os.path.join(VERIF, ".work", "tlc-cache", h.hexdigest())
    t0 = time.time()
    cached = False
    if ckey and os.path.exists(ckey + ".out") and os.path.exists(ckey + ".rc"):
        shutil.copyfile(ckey + ".out", out)
        rc = int(open(ckey + ".rc").read().split()[0])
        wall = float(open(ckey + ".rc").read().split()[1])
        cached = True
    else:
        with open(out, "w") as fo:
            p = subprocess.run(cmd, cwd=SPEC, env=e, stdout=fo, stderr=subprocess.STDOUT)
        rc = p.returncode
        wall = time.time() - t0
        shutil.rmtree(meta, ignore_errors=True)
        if ckey and rc != 124 and os.path.getsize(out) < 400 * 1024 * 1024:
            os.makedirs(os.path.dirname(ckey), exist_ok=True)
            shutil.copyfile(out, ckey + ".out")
            with open(ckey + ".rc", "w") as f:
                f.write("%d %.2f" % (rc, wall))
    class _P: pass
    p = _P(); p.returncode = rc
    res = {"module": module, "wall_s": round(wall, 2), "rc": p.returncode, "out": out, "exports": [],
           "states": 0, "distinct": 0, "error": None, "coverage": {}, "cached": cached}
    if p.returncode == 124:
        raise ToolError("TLC timed out on %s after %ds" % (module, timeout))
    err_lines = []
    with open(out, encoding="utf-8", errors="replace") as fi:
        in_err = False
        for line in fi:
            if line.startswith('"{') or line.startswith('"['):
                try:
                    res["exports"].append(json.loads(json.loads(line)))
                except Exception as ex:
                    raise ToolError("unparsable TLC export line: %s (%s)" % (line[:200], ex))
                continue
            m = re.match(r"(\d+) states generated, (\d+) distinct states found", line)
            if m:
                res["states"] = int(m.group(1))
                res["distinct"] = int(m.group(2))
            m = re.match(r"^<(\w+) line \d+, col \d+ to line \d+, col \d+ of module (\w+)>: (\d+):(\d+)", line)
            if m:
                res["coverage"][m.group(1)] = (int(m.group(3)), int(m.group(4)))
            if line.startswith("Error:") or in_err:
                in_err = True
                err_lines.append(line.rstrip())
                if len(err_lines) > 60:
                    in_err = False
    if err_lines:
        res["error"] = "\n".join(err_lines)
    elif p.returncode != 0:
        res["error"] = "TLC exit code %d (see %s)" % (p.returncode, out)
    log("[tlc] %s/%s: %d states (%d distinct), %d exports, %.1fs%s%s" % (
        module, name, res["states"], res["distinct"], len(res["exports"]), wall,
        " (output of an identical run reused)" if cached else "", ", ERROR" if res["error"] else ""))
    return res


def write_jsonl(path, items):
    with open(path, "w") as f:
        for it in items:
            f.write(json.dumps(it, ensure_ascii=False))
            f.write("\n")


def load_known():
    if not os.path.exists(KNOWN):
        return []
    with open(KNOWN) as f:
        return json.load(f)["findings"]


class Verdict:
    """Collects outcomes of one check run and turns them into lines, replay files, exit code."""

    def __init__(self, pid, tier, seed):
        self.pid, self.tier, self.seed = pid, tier, seed
        self.t0 = time.time()
        # an open finding is identified by its mechanism (switch) and by the model reproducing the
        # observed value, so it is recognised in whichever property's check it surfaces
        self.known = load_known()
        self.open_switches = {k["switch"]: k for k in self.known if k["status"] == "open"}
        self.violations = []
        self.known_seen = {}
        self.cov = {"states": 0, "transitions": 0, "traces_validated_against_impl": 0, "samples": [],
                    "evaluations": 0, "distinct_nontrivial": 0}
        self.assumptions = []
        self.notes = []
        self.drift = 0
        self.stage_info = []

    # -- classification (DESIGN.md section 5) ---------------------------------
    def classify(self, m, stage):
        """m: mismatch record {observed, allowed, model?, devs?, ...}.  Class 2 (known finding) iff the
        code-shaped model reproduces the observed value and every deviation switch attributed to this
        output is an open entry of known_findings.json; otherwise class 3 (violation)."""
        devs = m.get("devs") or []
        if devs and all(d in self.open_switches for d in devs) and ("model" not in m or m.get("model") == m.get("observed")):
            for d in devs:
                self.known_seen.setdefault(d, m)
            return "known"
        self.violations.append({"stage": stage, "case": m})
        return "violation"

    def add_tlc(self, r):
        self.cov["states"] += r["distinct"]
        self.cov["transitions"] += r["states"]
        self.stage_info.append({"tlc": r["module"], "distinct": r["distinct"], "generated": r["states"], "wall_s": r["wall_s"],
                                "output_reused_from_identical_run": bool(r.get("cached"))})

    def add_report(self, rep, stage, traces=0):
        self.cov["evaluations"] += rep.get("evaluations", 0)
        self.cov["distinct_nontrivial"] += rep.get("nontrivial", 0)
        self.cov["traces_validated_against_impl"] += traces
        self.drift += rep.get("drift", 0)
        for s in rep.get("samples", [])[:3]:
            if len(self.cov["samples"]) < 8:
                self.cov["samples"].append({"stage": stage, "case": s})
        for m in rep.get("mismatches", []):
            self.classify(m, stage)
        if rep.get("drift", 0):
            log("MODEL-DRIFT stage=%s count=%d e.g. %s" % (stage, rep["drift"], json.dumps(rep.get("drift_samples", [])[:2])))
        self.stage_info.append({"stage": stage, "evaluations": rep.get("evaluations", 0),
                                "nontrivial": rep.get("nontrivial", 0), "skipped": rep.get("skipped", 0),
                                "drift": rep.get("drift", 0), "counters": rep.get("counters", {})})

    def finish(self, level, rule, extra_cov=None, exhaustive=None):
        os.makedirs(os.path.join(VERIF, "evidence"), exist_ok=True)
        os.makedirs(os.path.join(VERIF, "replays"), exist_ok=True)
        for sw, m in self.known_seen.items():
            k = self.open_switches[sw]
            print("KNOWN-FINDING: property=%s %s %s | witness this run: %s" % (
                self.pid, k["id"], k["what"], json.dumps(m, ensure_ascii=False)[:300]))
        rc = 0
        for i, v in enumerate(self.violations[:10]):
            path = os.path.join(VERIF, "replays", "%s-%d-%d.json" % (self.pid, self.seed, i))
            with open(path, "w") as f:
                json.dump({"property": self.pid, "tier": self.tier, "seed": self.seed, **v,
                           "repo": git_describe()}, f, indent=1, ensure_ascii=False)
            print("VIOLATION property=%s replay=%s" % (self.pid, path))
            log("  detail: %s" % json.dumps(v, ensure_ascii=False)[:600])
            rc = 1
        cov = dict(self.cov)
        cov["rule"] = rule
        cov["stages"] = self.stage_info
        cov["model_drift"] = self.drift
        cov["known_findings_seen"] = sorted(self.known_seen.keys())
        if self.notes:
            cov["notes"] = list(self.notes)
        if exhaustive is not None:
            cov["exhaustive"] = exhaustive
        if extra_cov:
            cov.update(extra_cov)
        if not cov["samples"]:
            cov["samples"] = [{"note": "no sample recorded"}]
        ev = {"property_id": self.pid, "tier": self.tier, "seed": self.seed, "level": level,
              "coverage": cov, "assumptions": self.assumptions, "wall_s": round(time.time() - self.t0, 2),
              "violations": len(self.violations)}
        evdir = os.path.join(WORK, "evidence-scratch") if os.environ.get("VERIF_NO_EVIDENCE") else os.path.join(VERIF, "evidence")
        os.makedirs(evdir, exist_ok=True)
        with open(os.path.join(evdir, self.pid + ".json"), "w") as f:
            json.dump(ev, f, indent=1, ensure_ascii=False)
        log("[%s] tier=%s states=%d evals=%d nontrivial=%d violations=%d known=%s wall=%.1fs" % (
            self.pid, self.tier, cov["states"], cov["evaluations"], cov["distinct_nontrivial"],
            len(self.violations), sorted(self.known_seen.keys()), time.time() - self.t0))
        return rc


def git_describe():
    try:
        h = subprocess.run(["git", "-C", REPO, "rev-parse", "--short", "HEAD"], stdout=subprocess.PIPE, text=True).stdout.strip()
        d = subprocess.run(["git", "-C", REPO, "status", "--porcelain", "--untracked-files=no"], stdout=subprocess.PIPE, text=True).stdout.strip()
        return h + ("-dirty" if d else "")
    except Exception:
        return "unknown"


def require(cond, msg):
    if not cond:
        raise ToolError("vacuity/tool guard: " + msg)


def load_report(path):
    with open(path) as f:
        return json.load(f)


def run_tlapm(module, wd, timeout=900, threads=4):
    """Check the TLAPS proofs of spec/proofs/<module>.tla (unbounded safety of a small spec).  Returns the
    number of proved obligations; anything else than "All N obligations proved" is a tool-level failure
    (the proof, not the code, is what broke)."""
    import re as _re, shutil as _sh
    src = os.path.join(VERIF, "spec", "proofs", module + ".tla")
    cache = os.path.join(wd, "tlacache_" + module)
    _sh.rmtree(cache, ignore_errors=True)     # no fingerprint reuse: every run proves from scratch
    t0 = time.time()
    p = subprocess.run(["timeout", str(timeout), "tlapm", "--threads", str(threads), "--cache-dir", cache,
                        "-I", os.path.join(VERIF, "spec"), src], stdout=subprocess.PIPE, stderr=subprocess.STDOUT, text=True)
    m = _re.search(r"All (\d+) obligations? proved", p.stdout)
    log("[tlapm] %s: %s, %.1fs" % (module, m.group(0) if m else "NOT PROVED rc=%d" % p.returncode, time.time() - t0))
    if not m:
        raise ToolError("TLAPS proof %s did not go through: %s" % (module, p.stdout[-1500:]))
    return int(m.group(1))


def trace_validate(module, trace_path, wd, name, timeout=1800, heap="4g", extra_env=None, cfg_extra=""):
    """M3: validate an NDJSON trace recorded from the implementation against spec/<module>.tla.
    The trace spec prints one JSON line per disagreement and a final {"ev":"DONE","n":..} line."""
    cfg = "INIT Init\nNEXT Next\nPOSTCONDITION Done\nCHECK_DEADLOCK FALSE\n" + cfg_extra
    env = {"TRACE": trace_path}
    if extra_env:
        env.update(extra_env)
    r = run_tlc(module, cfg, wd, name, workers=1, timeout=timeout, env=env, heap=heap, deque=True)
    if r["error"]:
        raise ToolError("trace validation of %s failed in TLC: %s" % (trace_path, r["error"][:1500]))
    done = [e for e in r["exports"] if isinstance(e, dict) and e.get("ev") == "DONE"]
    require(len(done) == 1, "trace spec %s did not consume the whole trace %s" % (module, trace_path))
    mism = [e for e in r["exports"] if isinstance(e, dict) and e.get("ev") == "MISMATCH"]
    return r, done[0], mism


def scale_stage(v, wd, prop, sync=False):
    """The property at SIZE (harness/src/scale.rs): inputs no bounded universe reaches - hundreds of rules in one bucket,
    dozens of domain= values, hosts with a dozen labels, URLs with a hundred tokens, hundreds of tag switches, lists of
    a quarter of a million lines.  Expectations are relational (the list engine vs one-rule engines, a long history vs
    a fresh engine, a list vs the list without its rejected lines) or hold by construction (listed vs unlisted sites)."""
    rep_path = os.path.join(wd, "report_scale_%s.json" % prop)
    run_harness(["scale", prop, rep_path], timeout=1800, sync=sync)
    rep = load_report(rep_path)
    require(rep["evaluations"] > 0, "scale stage of %s evaluated nothing" % prop)
    v.add_report(rep, "scale:%s" % prop, traces=0)
    return rep
