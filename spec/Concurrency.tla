---------------------------- MODULE Concurrency ----------------------------
(***************************************************************************)
(* C19: the thread-safe build.  N threads each run M queries against one    *)
(* shared engine.  Every query takes the regex-manager lock for its whole   *)
(* duration (src/blocker.rs:122-155): acquire -> update_time (may discard   *)
(* compiled regexes) -> lookups (read or compile cache entries) -> release. *)
(* A cosmetic query takes the lock only for its generichide lookup and then  *)
(* continues lock-free on immutable data.  A panic while the lock is held    *)
(* poisons it for everybody.                                                *)
(*                                                                         *)
(* The answer to a query is a function of the query alone (Ans), whatever    *)
(* the cache holds: the cache only decides whether a regex is compiled.      *)
(***************************************************************************)
EXTENDS Naturals, Sequences, FiniteSets, TLC

CONSTANTS Threads, Queries, M,      \* M queries per thread
          RegexOf,                  \* RegexOf[q]: set of regex rules query q consults
          DevPanicOnRecompile,      \* deviation: a discarded entry is not recompiled -> panic under the lock
          DevTryLock                \* deviation: try_lock().unwrap() instead of lock()

VARIABLES pc, cur, left, lock, cache, discarded, poisoned, results
vars == <<pc, cur, left, lock, cache, discarded, poisoned, results>>

NONE == "none"
Ans(q) == q      \* the sequential answer to q, abstractly q itself

Init == /\ pc = [t \in Threads |-> "idle"] /\ cur = [t \in Threads |-> NONE] /\ left = [t \in Threads |-> M]
        /\ lock = NONE /\ cache = {} /\ discarded = {} /\ poisoned = FALSE /\ results = {}

Begin(t, q) == /\ pc[t] = "idle" /\ left[t] > 0
               /\ pc' = [pc EXCEPT ![t] = "waiting"] /\ cur' = [cur EXCEPT ![t] = q]
               /\ UNCHANGED <<left, lock, cache, discarded, poisoned, results>>

\* lock(): blocks while held; panics when poisoned.  try_lock (deviation): panics when held.
Acquire(t) == /\ pc[t] = "waiting"
              /\ IF poisoned \/ (DevTryLock /\ lock # NONE)
                   THEN /\ pc' = [pc EXCEPT ![t] = "panicked"] /\ UNCHANGED <<lock, cache, discarded>>
                   ELSE /\ lock = NONE /\ lock' = t /\ pc' = [pc EXCEPT ![t] = "critical"]
                        \* update_time: the cleanup may discard any subset of the compiled regexes
                        /\ \E D \in SUBSET cache : discarded' = discarded \cup D /\ cache' = cache \ D
              /\ UNCHANGED <<cur, left, poisoned, results>>

\* the lookups of the query, inside the critical section
Work(t) == /\ pc[t] = "critical" /\ lock = t
           /\ IF DevPanicOnRecompile /\ RegexOf[cur[t]] \cap discarded # {}
                THEN /\ poisoned' = TRUE /\ lock' = NONE /\ pc' = [pc EXCEPT ![t] = "panicked"]
                     /\ UNCHANGED <<cache, discarded, results>>
                ELSE /\ cache' = cache \cup RegexOf[cur[t]] /\ discarded' = discarded \ RegexOf[cur[t]]
                     /\ pc' = [pc EXCEPT ![t] = "answered"]
                     /\ results' = results \cup {<<t, cur[t], Ans(cur[t])>>}
                     /\ UNCHANGED <<lock, poisoned>>
           /\ UNCHANGED <<cur, left>>

Release(t) == /\ pc[t] = "answered" /\ lock = t
              /\ lock' = NONE /\ pc' = [pc EXCEPT ![t] = "idle"] /\ left' = [left EXCEPT ![t] = @ - 1]
              /\ cur' = [cur EXCEPT ![t] = NONE]
              /\ UNCHANGED <<cache, discarded, poisoned, results>>

Next == \E t \in Threads : (\E q \in Queries : Begin(t, q)) \/ Acquire(t) \/ Work(t) \/ Release(t)
Spec == Init /\ [][Next]_vars /\ \A t \in Threads : WF_vars(Acquire(t)) /\ WF_vars(Work(t)) /\ WF_vars(Release(t))

MutualExclusion == Cardinality({t \in Threads : pc[t] \in {"critical", "answered"}}) <= 1
LockConsistent == (lock # NONE) <=> (\E t \in Threads : pc[t] \in {"critical", "answered"})
NoPanic == \A t \in Threads : pc[t] # "panicked"
AnswersSequential == \A r \in results : r[3] = Ans(r[2])
\* no deadlock: some thread can move unless every thread has finished (or panicked)
Finished == \A t \in Threads : (pc[t] = "idle" /\ left[t] = 0) \/ pc[t] = "panicked"
DeadlockFree == Finished \/ ENABLED Next
EveryQueryEnds == \A t \in Threads : (pc[t] = "waiting") ~> (pc[t] \in {"idle", "panicked"})
=============================================================================
