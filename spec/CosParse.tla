------------------------------ MODULE CosParse ------------------------------
(***************************************************************************)
(* From cosmetic rule TEXT to the rule record of Cosmetic.tla (the reverse   *)
(* of Cosmetic!CosText).  A cosmetic line is                                 *)
(*        <locations> # <marker> # <body>                                    *)
(* and the parser decides from the three parts whether it is a rule at all:  *)
(* marker '' / '@' / '?' / '@?' only; no exception without a location; no    *)
(* generic scriptlet or action rule; no negated location on an exception;    *)
(* AdGuard '%', '$' markers, '[...]' location modifiers, '^' html filters,   *)
(* regex / quoted action arguments are refused; regex locations are dropped  *)
(* (and the rule with them if nothing else is left).                         *)
(* anchors: src/filters/cosmetic.rs:171-202 (locations), 210-282, 290-340    *)
(*          (actions), 357-478 (parse)                                       *)
(***************************************************************************)
EXTENDS Cosmetic

StartsW(s, p) == Len(s) >= Len(p) /\ SubSeq(s, 1, Len(p)) = p
EndsW(s, p) == Len(s) >= Len(p) /\ SubSeq(s, Len(s) - Len(p) + 1, Len(s)) = p
DropL(s, n) == SubSeq(s, n + 1, Len(s))
DropR(s, n) == SubSeq(s, 1, Len(s) - n)
RECURSIVE TrimStr(_)
TrimStr(s) == IF StartsW(s, " ") THEN TrimStr(DropL(s, 1)) ELSE IF EndsW(s, " ") THEN TrimStr(DropR(s, 1)) ELSE s
\* first index at which p occurs in s (0 = nowhere)
FindStr(s, p) == LET I == {i \in 1..(Len(s) - Len(p) + 1) : SubSeq(s, i, i + Len(p) - 1) = p} IN
                 IF I = {} THEN 0 ELSE CHOOSE i \in I : \A j \in I : i <= j

\* one location item of the comma separated list
LocItem(part) ==
  LET neg == StartsW(part, "~")
      ent == EndsW(part, ".*")
      name == DropR(DropL(part, IF neg THEN 1 ELSE 0), IF ent THEN 2 ELSE 0) IN
  IF StartsW(name, "/") THEN [unsupported |-> TRUE]
  ELSE [unsupported |-> FALSE, loc |-> [t |-> IF ent THEN "entity" ELSE "host", neg |-> neg, name |-> name]]

LocParts(loc) == LET ps == Split(Chars(loc), ",") IN {Str(ps[i]) : i \in {k \in DOMAIN ps : Len(ps[k]) > 0}}

Rejected == [ok |-> FALSE, r |-> C0]

\* the body of a rule that is not a scriptlet injection: selector and optional action
Action(tb) ==
  LET st == FindStr(tb, ":style(")  ra == FindStr(tb, ":remove-attr(")  rc == FindStr(tb, ":remove-class(")
      badArg(a) == StartsW(a, "/") \/ StartsW(a, "\"") \/ StartsW(a, "'") IN
  IF st > 0 THEN
       IF ~EndsW(tb, ")") THEN [ok |-> FALSE]
       ELSE [ok |-> TRUE, kind |-> "style", sel |-> SubSeq(tb, 1, st - 1), arg |-> SubSeq(tb, st + 7, Len(tb) - 1)]
  ELSE IF ra > 0 THEN
       IF ~EndsW(tb, ")") \/ badArg(SubSeq(tb, ra + 13, Len(tb) - 1)) THEN [ok |-> FALSE]
       ELSE [ok |-> TRUE, kind |-> "remove-attr", sel |-> SubSeq(tb, 1, ra - 1), arg |-> SubSeq(tb, ra + 13, Len(tb) - 1)]
  ELSE IF rc > 0 THEN
       IF ~EndsW(tb, ")") \/ badArg(SubSeq(tb, rc + 14, Len(tb) - 1)) THEN [ok |-> FALSE]
       ELSE [ok |-> TRUE, kind |-> "remove-class", sel |-> SubSeq(tb, 1, rc - 1), arg |-> SubSeq(tb, rc + 14, Len(tb) - 1)]
  ELSE IF EndsW(tb, ":remove()") THEN [ok |-> TRUE, kind |-> "remove", sel |-> DropR(tb, 9), arg |-> ""]
  ELSE [ok |-> TRUE, kind |-> "hide", sel |-> tb, arg |-> ""]

\* loc: text before the first '#'; marker: text between the two '#'; body0: text after the second '#'.
\* The whole line is trimmed before it is parsed, so trailing blanks of the body are gone.
ParseCos(loc, marker, body0) ==
  LET body == IF TrimStr(body0) = "" THEN "" ELSE
              LET RECURSIVE TR(_) TR(s) == IF EndsW(s, " ") THEN TR(DropR(s, 1)) ELSE s IN TR(body0)
      unhide == StartsW(marker, "@")
      m1 == IF unhide THEN DropL(marker, 1) ELSE marker
      m2 == IF StartsW(m1, "?") THEN DropL(m1, 1) ELSE m1
      items == {LocItem(p) : p \in LocParts(loc)}
      locs == {x.loc : x \in {y \in items : ~y.unsupported}}
      tb == TrimStr(body)
      isJs == Len(body) > 4 /\ StartsW(body, "+js(") /\ EndsW(body, ")")
  IN
  IF unhide /\ locs = {} /\ ~(\E x \in items : x.unsupported) THEN Rejected   \* generic unhide (no location parsed)
  ELSE IF StartsW(m1, "%") \/ StartsW(m1, "$") THEN Rejected                  \* AdGuard script / style markers
  ELSE IF m2 # "" THEN Rejected
  ELSE IF StartsW(loc, "[") THEN Rejected                                     \* location modifiers
  ELSE IF (\E x \in items : x.unsupported) /\ locs = {} THEN Rejected         \* only regex locations
  ELSE IF tb = "" THEN Rejected                                               \* empty rule
  ELSE IF isJs THEN
       IF locs = {} THEN Rejected                                             \* generic scriptlet (also ',##+js(..)': fix ec20b03)
       ELSE IF (\E l \in locs : l.neg) /\ unhide THEN Rejected
       ELSE [ok |-> TRUE, r |-> [C0 EXCEPT !.locs = locs, !.unhide = unhide, !.kind = "js", !.sel = SubSeq(body, 5, Len(body) - 1)]]
  ELSE IF StartsW(tb, "^") THEN Rejected                                      \* html filtering
  ELSE LET a == Action(tb) IN
       IF ~a.ok THEN Rejected
       ELSE IF locs = {} /\ a.kind # "hide" THEN Rejected                     \* generic action
       ELSE IF (\E l \in locs : l.neg) /\ unhide THEN Rejected                \* double negation
       ELSE [ok |-> TRUE, r |-> [C0 EXCEPT !.locs = locs, !.unhide = unhide, !.kind = a.kind, !.sel = a.sel, !.arg = a.arg]]
=============================================================================
