------------------------------ MODULE Cosmetic ------------------------------
(***************************************************************************)
(* Ideal layer of the cosmetic side.                                        *)
(*  C16  which hide selectors / action filters / scriptlets a page gets     *)
(*  C17  the leading class/id key of a generic selector, the partition of    *)
(*       generic selectors, the class/id lookup                              *)
(*  C18  permission gate on scriptlets and their dependencies, argument      *)
(*       parsing of +js(...)                                                 *)
(* anchors: src/cosmetic_filter_cache.rs, src/filters/cosmetic.rs:517-581,  *)
(*          src/resources/resource_storage.rs                               *)
(*                                                                         *)
(* rule = [locs, unhide, kind, sel, arg, perm]                               *)
(*   locs : set of [t \in {"host","entity"}, neg \in BOOLEAN, name]          *)
(*   kind \in {"hide","style","remove","remove-attr","remove-class","js"}    *)
(*   sel  : selector text, or the text between +js( and ) for kind "js"      *)
(*   perm : permission bits of the list the rule came from (a set of 0..7)   *)
(***************************************************************************)
EXTENDS Strs

C0 == [locs |-> {}, unhide |-> FALSE, kind |-> "hide", sel |-> "", arg |-> "", perm |-> {}]
H(n) == [t |-> "host", neg |-> FALSE, name |-> n]
NH(n) == [t |-> "host", neg |-> TRUE, name |-> n]
E(n) == [t |-> "entity", neg |-> FALSE, name |-> n]
NE(n) == [t |-> "entity", neg |-> TRUE, name |-> n]

RECURSIVE SetToSeqC(_)
SetToSeqC(S) == IF S = {} THEN <<>> ELSE LET x == CHOOSE y \in S : TRUE IN <<x>> \o SetToSeqC(S \ {x})
RECURSIVE JoinS(_, _)
JoinS(parts, sep) == IF Len(parts) = 0 THEN "" ELSE IF Len(parts) = 1 THEN parts[1] ELSE parts[1] \o sep \o JoinS(Tail(parts), sep)

LocText(l) == (IF l.neg THEN "~" ELSE "") \o l.name \o (IF l.t = "entity" THEN ".*" ELSE "")
CosText(r) ==
  JoinS([i \in 1..Cardinality(r.locs) |-> LocText(SetToSeqC(r.locs)[i])], ",")
  \o (IF r.unhide THEN "#@#" ELSE "##")
  \o (CASE r.kind = "hide" -> r.sel
        [] r.kind = "style" -> r.sel \o ":style(" \o r.arg \o ")"
        [] r.kind = "remove" -> r.sel \o ":remove()"
        [] r.kind = "remove-attr" -> r.sel \o ":remove-attr(" \o r.arg \o ")"
        [] r.kind = "remove-class" -> r.sel \o ":remove-class(" \o r.arg \o ")"
        [] r.kind = "js" -> "+js(" \o r.sel \o ")")

--------------------------------------------------------------------------
\* hosts.  PSL: the public suffixes of the universe (multi-label ones listed explicitly)
MultiLabelSuffixes == {"co.uk"}

Labels(h) == Split(Chars(h), ".")
LabelSuffixes(cs) ==    \* label-aligned suffixes of a character sequence, as strings
  {Str(From(cs, 1))} \cup {Str(From(cs, i + 1)) : i \in {k \in 1..(Len(cs) - 1) : cs[k] = "."}}

PublicSuffix(h) ==
  LET cs == Chars(h)
      m == {s \in MultiLabelSuffixes : IsSuffixOf(<<".">> \o Chars(s), cs)} IN
  IF m # {} THEN CHOOSE s \in m : TRUE
  ELSE LET ls == Labels(h) IN Str(ls[Len(ls)])

\* hostname without ".<public suffix>" ("" if the host is the suffix itself)
WithoutSuffix(h) ==
  LET n == Len(Chars(h)) - Len(Chars(PublicSuffix(h))) - 1 IN
  IF n <= 0 THEN <<>> ELSE Sub(Chars(h), 1, n)

\* the registrable domain: last label of WithoutSuffix + the suffix
RegDomain(h) ==
  LET w == WithoutSuffix(h) IN
  IF Len(w) = 0 THEN h
  ELSE LET ls == Split(w, ".") IN Str(ls[Len(ls)]) \o "." \o PublicSuffix(h)

\* names a hostname location may carry to cover page host h: h, its parents down to the
\* registrable domain, and the public suffix itself
HostNames(h) ==
  {s \in LabelSuffixes(Chars(h)) : Len(Chars(s)) >= Len(Chars(RegDomain(h)))} \cup {PublicSuffix(h)}
\* names an entity location (name.*) may carry
EntityNames(h) == IF Len(WithoutSuffix(h)) = 0 THEN {} ELSE LabelSuffixes(WithoutSuffix(h))

Covers(l, h) == IF l.t = "host" THEN l.name \in HostNames(h) ELSE l.name \in EntityNames(h)

Pos(r) == {l \in r.locs : ~l.neg}
Neg(r) == {l \in r.locs : l.neg}
PosCovers(r, h) == \E l \in Pos(r) : Covers(l, h)
NegCovers(r, h) == \E l \in Neg(r) : Covers(l, h)

--------------------------------------------------------------------------
\* C17: leading key of a selector after CSS unescaping.  HexMap: code point text -> character,
\* for the hex escapes of the universe.
HexDigits == Digits \cup {"a", "b", "c", "d", "e", "f", "A", "B", "C", "D", "E", "F"}
HexMap == [x \in {"31", "61", "41", "2e", "e9", "3A", "3a"} |->
            CASE x = "31" -> "1" [] x = "61" -> "a" [] x = "41" -> "A" [] x = "2e" -> "." [] x = "e9" -> "é"
              [] x = "3A" -> ":" [] x = "3a" -> ":"]
IsIdentChar(c) == IsAlnum(c) \/ c \in {"_", "-"} \/ c \in {"é", "ü", "я"}
MultiLabelSuffixesNote == "рф is a single-label public suffix"      \* non-ASCII letters of the universe

RECURSIVE StripZeros(_)        \* '\\000061' is '\\61'
StripZeros(ds) == IF Len(ds) > 1 /\ ds[1] = "0" THEN StripZeros(Tail(ds)) ELSE ds

\* parse an identifier starting at position i of cs; returns [key, ok]: the unescaped
\* identifier (ok = FALSE when an escape cannot be decoded with HexMap)
RECURSIVE Ident(_, _)
Ident(cs, i) ==
  IF i > Len(cs) THEN [key |-> <<>>, ok |-> TRUE]
  ELSE LET c == cs[i] IN
    IF IsIdentChar(c) THEN LET r == Ident(cs, i + 1) IN [key |-> <<c>> \o r.key, ok |-> r.ok]
    ELSE IF c = "\\" /\ i < Len(cs) THEN
      IF cs[i + 1] \in HexDigits THEN
        LET n == CHOOSE k \in 1..6 : /\ i + k <= Len(cs)
                                     /\ \A j \in 1..k : cs[i + j] \in HexDigits
                                     /\ (k = 6 \/ i + k = Len(cs) \/ cs[i + k + 1] \notin HexDigits)
            hex == Str(StripZeros(Sub(cs, i + 1, i + n)))
            skipWs == IF i + n < Len(cs) /\ cs[i + n + 1] = " " THEN 1 ELSE 0
            r == Ident(cs, i + n + 1 + skipWs) IN
        IF hex \in DOMAIN HexMap THEN [key |-> <<HexMap[hex]>> \o r.key, ok |-> r.ok]
        ELSE [key |-> <<>>, ok |-> FALSE]
      ELSE LET r == Ident(cs, i + 2) IN [key |-> <<cs[i + 1]>> \o r.key, ok |-> r.ok]
    ELSE [key |-> <<>>, ok |-> TRUE]

\* [t \in {"class","id","none","unknown"}, name]
LeadingKey(sel) ==
  LET cs == Chars(sel) IN
  IF Len(cs) < 2 \/ cs[1] \notin {".", "#"} THEN [t |-> "none", name |-> ""]
  ELSE LET r == Ident(cs, 2) IN
       IF ~r.ok THEN [t |-> "unknown", name |-> ""]
       ELSE IF Len(r.key) = 0 THEN [t |-> "none", name |-> ""]
       ELSE [t |-> IF cs[1] = "." THEN "class" ELSE "id", name |-> Str(r.key)]

--------------------------------------------------------------------------
\* C16: per-site resources.  RS: sequence of cosmetic rules

IsGeneric(r) == r.locs = {}
\* a hide rule carrying only negated locations also acts as a generic rule
ActsGeneric(r) == r.kind = "hide" /\ ~r.unhide /\ Pos(r) = {}
GenericSelectors(RS) == {RS[i].sel : i \in {k \in DOMAIN RS : ActsGeneric(RS[k])}}

\* selectors unhidden for host h: #@# rules covering h, and hide rules whose negation covers h
Unhidden(RS, h) ==
  {RS[i].sel : i \in {k \in DOMAIN RS : RS[k].kind = "hide" /\
                        ((RS[k].unhide /\ PosCovers(RS[k], h)) \/ (~RS[k].unhide /\ NegCovers(RS[k], h)))}}

SpecificHide(RS, h) ==
  {RS[i].sel : i \in {k \in DOMAIN RS : RS[k].kind = "hide" /\ ~RS[k].unhide /\ PosCovers(RS[k], h)}}

\* generic selectors that cannot be looked up by class or id go to every page
MiscGeneric(RS) == {s \in GenericSelectors(RS) : LeadingKey(s).t = "none"}

HideSelectors(RS, h, ghide) ==
  (SpecificHide(RS, h) \ Unhidden(RS, h)) \cup (IF ghide THEN {} ELSE MiscGeneric(RS) \ Unhidden(RS, h))

ActionKinds == {"style", "remove", "remove-attr", "remove-class"}
Canon(r) == [sel |-> r.sel, kind |-> r.kind, arg |-> r.arg]
Actions(RS, h) ==
  {Canon(RS[i]) : i \in {k \in DOMAIN RS : RS[k].kind \in ActionKinds /\ ~RS[k].unhide /\ PosCovers(RS[k], h)}}
  \ {Canon(RS[i]) : i \in {k \in DOMAIN RS : RS[k].kind \in ActionKinds /\
                        ((RS[k].unhide /\ PosCovers(RS[k], h)) \/ (~RS[k].unhide /\ NegCovers(RS[k], h)))}}

\* C17: class/id lookup
ClassIdLookup(RS, classes, ids, exceptions) ==
  {s \in GenericSelectors(RS) :
     LET k == LeadingKey(s) IN (k.t = "class" /\ k.name \in classes) \/ (k.t = "id" /\ k.name \in ids)}
  \ exceptions

--------------------------------------------------------------------------
\* C18: scriptlets.  Store: set of [name, aliases, kind \in {"fn","template","other"}, perm (set of bits),
\* deps (set of names)].  An injection is (argument text, permission of the requesting list).

\* +js(...) argument list: comma separated, each argument trimmed; a quoted argument ("..", '..',
\* `..`) is taken verbatim up to the matching unescaped quote; "\," is a literal comma.
RECURSIVE UnquotedEnd(_, _)      \* index of the next unescaped ',' at or after i (Len+1 if none)
UnquotedEnd(cs, i) ==
  IF i > Len(cs) THEN Len(cs) + 1
  ELSE IF cs[i] = "\\" /\ i < Len(cs) THEN UnquotedEnd(cs, i + 2)
  ELSE IF cs[i] = "," THEN i ELSE UnquotedEnd(cs, i + 1)
RECURSIVE QuoteEnd(_, _, _)      \* index of the next unescaped quote character q at or after i (0 if none)
QuoteEnd(cs, i, q) ==
  IF i > Len(cs) THEN 0
  ELSE IF cs[i] = "\\" /\ i < Len(cs) THEN QuoteEnd(cs, i + 2, q)
  ELSE IF cs[i] = q THEN i ELSE QuoteEnd(cs, i + 1, q)
RECURSIVE SkipWs(_, _)
SkipWs(cs, i) == IF i <= Len(cs) /\ cs[i] = " " THEN SkipWs(cs, i + 1) ELSE i
RECURSIVE TrimEnd(_)
TrimEnd(cs) == IF Len(cs) > 0 /\ cs[Len(cs)] = " " THEN TrimEnd(Sub(cs, 1, Len(cs) - 1)) ELSE cs
\* "\<sep>" -> "<sep>" ; other backslashes stay
RECURSIVE Unescape(_, _)
Unescape(cs, sep) ==
  IF Len(cs) = 0 THEN <<>>
  ELSE IF cs[1] = "\\" /\ Len(cs) >= 2 /\ cs[2] = sep THEN <<sep>> \o Unescape(Sub(cs, 3, Len(cs)), sep)
  ELSE IF cs[1] = "\\" /\ Len(cs) >= 2 THEN <<cs[1], cs[2]>> \o Unescape(Sub(cs, 3, Len(cs)), sep)
  ELSE <<cs[1]>> \o Unescape(Tail(cs), sep)

\* returns [ok, args (sequence of strings)]
RECURSIVE ParseArgsFrom(_, _)
ParseArgsFrom(cs, i0) ==
  LET i == SkipWs(cs, i0) IN
  IF i0 > Len(cs) THEN [ok |-> TRUE, args |-> <<>>]
  \* text remains after the last comma but it is only whitespace: one more, empty, argument
  \* (pinned by tests/unit/resources/resource_storage.rs parse_argslist_quoted)
  ELSE IF i > Len(cs) THEN [ok |-> TRUE, args |-> <<"">>]
  ELSE IF cs[i] \in {"\"", "'", "`"} THEN
    LET e == QuoteEnd(cs, i + 1, cs[i]) IN
    IF e = 0 THEN [ok |-> FALSE, args |-> <<>>]
    ELSE LET j == SkipWs(cs, e + 1)
             arg == Str(Unescape(Sub(cs, i + 1, e - 1), cs[i])) IN
         IF j > Len(cs) THEN [ok |-> TRUE, args |-> <<arg>>]
         ELSE IF cs[j] = "," THEN LET r == ParseArgsFrom(cs, j + 1) IN [ok |-> r.ok, args |-> <<arg>> \o r.args]
         ELSE [ok |-> FALSE, args |-> <<>>]
  ELSE LET e == UnquotedEnd(cs, i)
           arg == Str(Unescape(TrimEnd(Sub(cs, i, e - 1)), ","))
           r == IF e > Len(cs) THEN [ok |-> TRUE, args |-> <<>>] ELSE ParseArgsFrom(cs, e + 1) IN
       [ok |-> r.ok, args |-> <<arg>> \o r.args]
ParseArgs(text) ==
  IF SkipWs(Chars(text), 1) > Len(Chars(text)) THEN [ok |-> TRUE, args |-> <<>>]
  ELSE ParseArgsFrom(Chars(text), 1)

WithJs(n) == IF IsSuffixOf(Chars(".js"), Chars(n)) THEN n ELSE n \o ".js"
Lookup(Store, n) == {x \in Store : x.name = n \/ n \in x.aliases}

\* every resource reachable through dependency edges from x (x included)
RECURSIVE Closure(_, _, _)
Closure(Store, todo, seen) ==
  IF todo = {} THEN seen
  ELSE LET n == CHOOSE y \in todo : TRUE
           xs == Lookup(Store, n)
           next == IF xs = {} THEN {} ELSE (CHOOSE x \in xs : TRUE).deps IN
       Closure(Store, (todo \cup next) \ (seen \cup {n}), seen \cup {n})

\* may the injection `text` requested with permission p be emitted?  If so, with which resource
\* and which arguments
Injection(Store, text, p) ==
  LET pa == ParseArgs(text) IN
  IF ~pa.ok \/ Len(pa.args) = 0 THEN [ok |-> FALSE]
  ELSE LET xs == Lookup(Store, WithJs(pa.args[1])) IN
    IF xs = {} THEN [ok |-> FALSE]
    ELSE LET x == CHOOSE y \in xs : TRUE
             need == Closure(Store, x.deps, {})
             allThere == \A n \in need : Lookup(Store, n) # {}
             allAllowed == \A n \in need : \A y \in Lookup(Store, n) : y.perm \subseteq p
             \* documented limitation: a single argument written as a JSON object is rejected
             objectArg == Len(pa.args) = 2 /\ Len(Chars(pa.args[2])) >= 2
                          /\ Chars(pa.args[2])[1] = "{" /\ Chars(pa.args[2])[Len(Chars(pa.args[2]))] = "}" IN
      IF x.kind \notin {"fn", "template"} \/ ~(x.perm \subseteq p) \/ ~allThere \/ ~allAllowed \/ objectArg THEN [ok |-> FALSE]
      ELSE [ok |-> TRUE, res |-> x.name, style |-> x.kind, args |-> Tail(pa.args),
            deps |-> {(CHOOSE y \in Lookup(Store, n) : TRUE).name : n \in need}]

\* injections requested for host h: text -> set of permissions of the requesting lists
JsRequested(RS, h) ==
  {<<RS[i].sel, RS[i].perm>> : i \in {k \in DOMAIN RS : RS[k].kind = "js" /\ ~RS[k].unhide /\ PosCovers(RS[k], h)}}
JsExcepted(RS, h) ==
  {RS[i].sel : i \in {k \in DOMAIN RS : RS[k].kind = "js" /\
                        ((RS[k].unhide /\ PosCovers(RS[k], h)) \/ (~RS[k].unhide /\ NegCovers(RS[k], h)))}}

\* the set of emitted invocations [res, args]; a blanket exception "+js()" removes all
Scripts(RS, Store, h) ==
  LET ex == JsExcepted(RS, h) IN
  IF "" \in ex THEN {}
  ELSE LET live == {rq \in JsRequested(RS, h) : rq[1] \notin ex}
           ok == {rq \in live : Injection(Store, rq[1], rq[2]).ok} IN
       {[res |-> Injection(Store, rq[1], rq[2]).res, args |-> Injection(Store, rq[1], rq[2]).args] : rq \in ok}

\* Impl-layer variant (named deviation permissionUnionAcrossLists): the code keeps, per page, one
\* permission mask per identical injection text and ORs the masks of all lists that requested it
ScriptsUnion(RS, Store, h) ==
  LET ex == JsExcepted(RS, h) IN
  IF "" \in ex THEN {}
  ELSE LET live == {rq \in JsRequested(RS, h) : rq[1] \notin ex}
           texts == {rq[1] : rq \in live}
           U(t) == UNION {rq[2] : rq \in {x \in live : x[1] = t}}
           ok == {t \in texts : Injection(Store, t, U(t)).ok} IN
       {[res |-> Injection(Store, t, U(t)).res, args |-> Injection(Store, t, U(t)).args] : t \in ok}
=============================================================================
