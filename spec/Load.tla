-------------------------------- MODULE Load --------------------------------
(***************************************************************************)
(* C10: loading serialized data.  Abstract state of one long-lived engine:  *)
(*   cur   which rule state the engine is in: an image id, or "havoc" after *)
(*         a "successful" load of corrupted bytes (then only "no panic" is   *)
(*         required of later queries)                                       *)
(*   tags  the caller's enabled tags (never changed by a load)              *)
(* Impl layer: Engine::deserialize decodes the whole buffer into a staging  *)
(* value and only then replaces blocker and cosmetic cache                  *)
(* (src/engine.rs:147-160); DevCommitEarly models assigning one half before *)
(* the other half has been decoded.                                         *)
(***************************************************************************)
EXTENDS Naturals, Sequences, FiniteSets

CONSTANTS Images,          \* ids of valid images
          DevCommitEarly   \* BOOLEAN: deviation switch (assign blocker before cosmetic half decodes)

VARIABLES cur, tags, partial
vars == <<cur, tags, partial>>

States == Images \cup {"havoc"}

\* a valid image replaces the rule state, keeps the tags
LoadValid(i) == /\ i \in Images /\ cur' = i /\ UNCHANGED <<tags, partial>>

\* corrupted bytes that fail to decode: nothing changes -- unless the implementation commits
\* the first half before decoding the second (deviation)
LoadRejected ==
  /\ UNCHANGED tags
  /\ IF DevCommitEarly THEN \E b \in BOOLEAN : partial' = b /\ cur' = (IF b THEN "havoc" ELSE cur)
     ELSE UNCHANGED <<cur, partial>>

\* corrupted bytes that happen to decode: any rule state may result; tags are still kept
LoadAcceptedCorrupt == cur' = "havoc" /\ UNCHANGED <<tags, partial>>

SetTags(T) == tags' = T /\ UNCHANGED <<cur, partial>>

Init == cur \in Images /\ tags \in SUBSET {"t1", "t2"} /\ partial = FALSE

Next == \/ \E i \in Images : LoadValid(i)
        \/ LoadRejected \/ LoadAcceptedCorrupt
        \/ \E T \in SUBSET {"t1", "t2"} : SetTags(T)

\* "when it returns an error the engine behaves exactly as it did before the call"
Atomic == [][ (cur' # cur) => (\E i \in Images : cur' = i) \/ cur' = "havoc" ]_vars
ErrorIsAtomic == partial = FALSE
TagsSurviveLoads == [][ tags' # tags => UNCHANGED cur ]_vars
=============================================================================
