------------------------------ MODULE MC_C02 ------------------------------
(***************************************************************************)
(* C02, bounded universe: every pattern body of length 1..MaxLen over       *)
(* Sigma x 3 left anchors x 2 right anchors, against the URL universe.      *)
(* One TLC state per pattern.  Checks Impl (code-shaped matcher paths)      *)
(* against Ideal (three-valued) outside the named deviations, and exports   *)
(* one JSON line per pattern for replay against the real matcher.           *)
(***************************************************************************)
EXTENDS Tokens, TLC, Json

CONSTANTS MaxLen, Sigma, Export

VARIABLE pat
vars == <<pat>>

\* scheme://[userinfo@]host[:port]path
MkUrl(scheme, userinfo, host, port, path) ==
  LET pre == Chars(scheme) \o Chars("://") \o
             (IF userinfo = "" THEN <<>> ELSE Chars(userinfo) \o <<"@">>)
      h == Chars(host) IN
  [url |-> pre \o h \o (IF port = "" THEN <<>> ELSE <<":">> \o Chars(port)) \o Chars(path),
   hs |-> Len(pre) + 1, he |-> Len(pre) + Len(h),
   scheme |-> scheme, alias |-> "script", src |-> <<>>, tp |-> TRUE]

Urls == <<
  MkUrl("https", "", "ab.ba", "", "/ab"),
  MkUrl("https", "", "ab.ba", "", "/a.b/ba"),
  MkUrl("http",  "", "ab.ba", "", "/ba?a=b"),
  MkUrl("https", "", "aab.ba", "", "/ab"),
  MkUrl("https", "", "aab.ba", "", "/b/a"),
  MkUrl("https", "", "ab.ba.ab.ba", "", "/a"),
  MkUrl("https", "", "aab.ba.ab.ba", "", "/b"),
  MkUrl("https", "", "bab.ab.ba", "", "/ab/"),
  MkUrl("https", "", "b.a", "", "/"),
  MkUrl("https", "", "b.a", "", "/ab.ba/a"),
  MkUrl("https", "", "a.b.a", "", "/a/b"),
  MkUrl("https", "", "ba.ab", "", "/b.a"),
  MkUrl("https", "", "ab.ba", "80", "/ab"),
  MkUrl("https", "ab.ba", "b.ab.ba", "", "/a"),
  MkUrl("https", "", "a.ab", "", "/ab.ba"),
  MkUrl("wss",   "", "ab.ba", "", "/a/"),
  MkUrl("https", "", "ab.b", "", "/a//b"),
  MkUrl("https", "", "ab.ba", "", "/a?ab.ba/b"),
  MkUrl("https", "", "a-b.ba", "", "/a_b"),
  MkUrl("https", "", "ba", "", "/ab.ba"),
  MkUrl("http",  "", "a.b", "", "/b/ab/ba/a.b"),
  MkUrl("https", "", "aa.bb", "", "/aa.bb"),
  MkUrl("https", "", "abab.ba", "", "/x"),
  MkUrl("https", "", "ab.ba.a", "", "/ab.ba.a/"),
  MkUrl("https", "", "ab.ba", "", "/AB/Ba"),
  MkUrl("https", "", "b.a", "", "/A.B/b?A=B"),
  MkUrl("https", "", "b.a", "", "/bab"),
  \* regex metacharacters (the second alphabet {a,+,(,.,/,^} of the checks): literal text in a pattern,
  \* they must be escaped by every translation of the pattern into a regex
  MkUrl("https", "", "aa.ba", "", "/a+a"),
  MkUrl("https", "", "aa.ba", "", "/a+(a)/+"),
  MkUrl("https", "", "a.ba", "", "/aa/(a+.a"),
  \* a literal '*' in the request URL (a legal path character): for '^' it is a separator like any other, and
  \* the runs next to it are tokens of the URL like any other
  MkUrl("https", "", "b.a", "", "/a*ab"),
  MkUrl("https", "", "b.a", "", "/ab*"),
  MkUrl("https", "", "b.a", "", "/ba*ab/a")
>>

Pats == [left : {"none", "pipe", "dpipe"}, body : SeqsUpTo(Sigma, 1, MaxLen), right : BOOLEAN]

PrintPat(p) ==
  (IF p.left = "pipe" THEN "|" ELSE IF p.left = "dpipe" THEN "||" ELSE "")
  \o Str(p.body) \o (IF p.right THEN "|" ELSE "")

Init == pat \in Pats
Next == UNCHANGED pat

\* M1: the code-shaped matcher refines the Ideal semantics outside the named deviations
Refines ==
  Degenerate(pat) \/
  \A k \in DOMAIN Urls :
     \/ ImplMatch(pat, Urls[k]) \in IdealMatch(pat, Urls[k])
     \/ DevNames(pat, Urls[k]) # {}

\* C01 (M1): index completeness at rule level.  Whatever token of the rule the list-wide histogram
\* picks as its bucket, a request the rule's matcher accepts probes that bucket.  Checked for every
\* pattern of the universe (degenerate spellings included; only the /regex/ form has no tokens).
AsRule == [R0 EXCEPT !.left = pat.left, !.body = pat.body, !.right = pat.right]
RegexForm == Len(pat.body) > 1 /\ pat.body[1] = "/" /\ pat.body[Len(pat.body)] = "/"
TokensSafe == RegexForm \/ \A k \in DOMAIN Urls : IndexComplete(AsRule, Urls[k])

\* M2 export: one line per non-degenerate pattern
ExportLine ==
  ToJson([k |-> "c02", rule |-> PrintPat(pat), tokens |-> RuleTokenGroups(AsRule),
          allowed |-> [k \in DOMAIN Urls |-> IdealMatch(pat, Urls[k])],
          model |-> [k \in DOMAIN Urls |-> ImplMatch(pat, Urls[k])],
          devs |-> [k \in DOMAIN Urls |-> DevNames(pat, Urls[k])]])

\* exploration aid: print every unexplained Impl/Ideal difference instead of stopping
DebugDiff ==
  Degenerate(pat) \/
  \A k \in DOMAIN Urls :
     IF ImplMatch(pat, Urls[k]) \in IdealMatch(pat, Urls[k]) \/ DevNames(pat, Urls[k]) # {} THEN TRUE
     ELSE PrintT(<<"DIFF", PrintPat(pat), Str(Urls[k].url), ImplMatch(pat, Urls[k]), IdealMatch(pat, Urls[k])>>)

Exported == (Export /\ ~Degenerate(pat)) => PrintT(ExportLine)

ASSUME PrintT(ToJson([k |-> "universe", urls |-> [k \in DOMAIN Urls |-> Str(Urls[k].url)]]))
=============================================================================
