INIT Init
NEXT Next
CONSTANTS
  MaxLen = 3
  Sigma = {"a", "b", ".", "/", "^", "*"}
  Export = TRUE
INVARIANTS Refines Exported
CHECK_DEADLOCK FALSE
