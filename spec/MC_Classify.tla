---------------------------- MODULE MC_Classify ----------------------------
(***************************************************************************)
(* C11, "rule-type options hold", from the text side: which parser a line   *)
(* is handed to.  A line of a Standard-format list is a comment, a network   *)
(* rule or a cosmetic rule by a purely lexical test (detect_filter_type);    *)
(* the rule-type option then admits or refuses it.  The test looks at BYTES  *)
(* (a one-byte line is a comment, a second '#' must lie within the four      *)
(* bytes after the first), so the alphabet has a two-byte character.         *)
(* TLC enumerates every line of <= N characters over the alphabet and        *)
(* exports its class under each rule-type option; replayed on parse_filter.  *)
(* anchors: src/lists.rs:415-445 (dispatch), 530-568 (detect_filter_type)    *)
(***************************************************************************)
EXTENDS Strs, TLC, Json, FiniteSets

CONSTANT N
VARIABLES stage, first, line
vars == <<stage, first, line>>

\* "[Adblock" is one unit of the alphabet (the header test needs those eight characters in a row)
Sigma == <<"a", "#", "$", "|", "!", "@", " ", "[", "é", "[Adblock">>
Width(c) == IF c = "é" THEN 2 ELSE IF c = "[Adblock" THEN 8 ELSE 1
RECURSIVE ByteLen(_)
ByteLen(cs) == IF Len(cs) = 0 THEN 0 ELSE Width(cs[1]) + ByteLen(Tail(cs))
\* byte offset (0-based) at which character i starts
Off(cs, i) == ByteLen(SubSeq(cs, 1, i - 1))

IsWs(c) == c = " "
RECURSIVE TrimL(_)
TrimL(cs) == IF Len(cs) > 0 /\ IsWs(cs[1]) THEN TrimL(Tail(cs)) ELSE cs
RECURSIVE TrimR(_)
TrimR(cs) == IF Len(cs) > 0 /\ IsWs(cs[Len(cs)]) THEN TrimR(SubSeq(cs, 1, Len(cs) - 1)) ELSE cs
Trim(cs) == TrimR(TrimL(cs))

StartsWith(cs, p) == Len(cs) >= Len(p) /\ SubSeq(cs, 1, Len(p)) = p
HasDollarDollar(cs) == \E i \in 1..(Len(cs) - 1) : cs[i] = "$" /\ cs[i + 1] = "$"

\* detect_filter_type on a trimmed, non-empty line
Detect(t) ==
  IF ByteLen(t) = 1 \/ t[1] = "!" \/ (t[1] = "#" /\ Len(t) > 1 /\ IsWs(t[2])) \/ t[1] = "[Adblock"
    THEN "unsupported"
  ELSE IF t[1] = "|" \/ StartsWith(t, <<"@", "@", "|">>) THEN "net"
  ELSE LET sharps == {i \in 1..Len(t) : t[i] = "#"} IN
       IF sharps # {} /\ LET i == CHOOSE x \in sharps : \A y \in sharps : x <= y
                             after == Off(t, i) + 1 IN      \* byte offset just after the first '#'
                         \E j \in sharps : j > i /\ Off(t, j) < after + 4
       THEN "cos"
       ELSE IF HasDollarDollar(t) THEN "unsupported"
       ELSE "net"

Class(cs, rt) ==
  LET t == Trim(cs) IN
  IF Len(t) = 0 THEN "empty"
  ELSE LET d == Detect(t) IN
       IF d = "net" /\ rt \in {"all", "network"} THEN "net"
       ELSE IF d = "cos" /\ rt \in {"all", "cosmetic"} THEN "cos"
       ELSE "unsupported"

\* all lines of length 1..N: seeds by first character, successors = the rest
RECURSIVE Seqs(_)
Seqs(n) == IF n = 0 THEN {<<>>} ELSE {<<Sigma[i]>> \o s : i \in DOMAIN Sigma, s \in Seqs(n - 1)}
Init == stage = "seed" /\ first \in DOMAIN Sigma /\ line = <<>>
Next == /\ stage = "seed" /\ stage' = "case" /\ first' = first
        /\ \E n \in 0..(N - 1) : \E s \in Seqs(n) : line' = <<Sigma[first]>> \o s

\* design sanity (M1): the rule-type option only ever removes lines, and never turns one kind into the other
Monotone ==
  stage = "case" =>
    /\ Class(line, "network") \in {Class(line, "all"), "unsupported"}
    /\ Class(line, "cosmetic") \in {Class(line, "all"), "unsupported"}
    /\ (Class(line, "all") = "net" => Class(line, "cosmetic") = "unsupported")
    /\ (Class(line, "all") = "cos" => Class(line, "network") = "unsupported")

Exported ==
  stage = "case" =>
    PrintT(ToJson([k |-> "classify", line |-> Str(line),
                   cls |-> [all |-> Class(line, "all"), network |-> Class(line, "network"), cosmetic |-> Class(line, "cosmetic")]]))
=============================================================================
