------------------------------ MODULE MC_Cos ------------------------------
(***************************************************************************)
(* Bounded universes for the cosmetic properties (C16, C17, C18).  One TLC  *)
(* state per rule list; the Ideal per-site resources for every page host    *)
(* and the class/id lookups are exported for replay on real engines (and on *)
(* engines reloaded from their serialized image, C08).                      *)
(***************************************************************************)
EXTENDS CosParse, TLC, Json, Randomization

CONSTANTS U, K
VARIABLES stage, part, L,
          raw          \* universe "parse" only: the line as written ("" elsewhere)
vars == <<stage, part, L, raw>>

HideR(locs, sel) == [C0 EXCEPT !.locs = locs, !.sel = sel]
UnhideR(locs, sel) == [C0 EXCEPT !.locs = locs, !.sel = sel, !.unhide = TRUE]
ActR(locs, sel, kind, arg) == [C0 EXCEPT !.locs = locs, !.sel = sel, !.kind = kind, !.arg = arg]
JsR(locs, args, perm) == [C0 EXCEPT !.locs = locs, !.sel = args, !.kind = "js", !.perm = perm]

--------------------------------------------------------------------------
\* c16: scoping
PoolC16 == <<
  HideR({H("a.com")}, ".x"), HideR({H("s.a.com")}, ".y"), HideR({H("a.co.uk")}, ".x"), HideR({H("com")}, ".tld"),
  HideR({H("co.uk")}, ".tld2"), HideR({E("a")}, ".ent"), HideR({E("s.a")}, ".ent2"), HideR({H("a.com"), H("b.com")}, ".two"),
  HideR({H("a.com"), NH("s.a.com")}, ".z"), HideR({NH("a.com")}, ".n"), HideR({NE("a")}, "div.m"),
  HideR({}, ".g"), HideR({}, "div[ad]"), HideR({}, "#gi > .q"),
  UnhideR({H("a.com")}, ".g"), UnhideR({H("s.a.com")}, ".x"), UnhideR({E("a")}, "div[ad]"), UnhideR({H("t.s.a.com")}, ".y"),
  ActR({H("a.com")}, ".s", "style", "color: red"), ActR({H("a.com")}, ".r", "remove", ""),
  ActR({E("a")}, ".ra", "remove-attr", "onclick"), ActR({H("s.a.com")}, ".rc", "remove-class", "ad"),
  [ActR({H("a.com")}, ".s", "style", "color: red") EXCEPT !.unhide = TRUE, !.locs = {H("s.a.com")}],
  ActR({H("a.com"), NH("t.s.a.com")}, ".r2", "remove", ""),
  JsR({H("a.com")}, "sc1, x", {}), JsR({E("a")}, "sc2", {}), JsR({H("a.com"), NH("s.a.com")}, "sc1, y", {}),
  [JsR({H("s.a.com")}, "sc1, x", {}) EXCEPT !.unhide = TRUE], [JsR({H("t.s.a.com")}, "", {}) EXCEPT !.unhide = TRUE],
  \* exceptions scoped ABOVE the rule they cancel (registrable domain / entity vs subdomain)
  JsR({H("s.a.com")}, "sc2, q", {}), [JsR({H("a.com")}, "sc2, q", {}) EXCEPT !.unhide = TRUE],
  [JsR({E("a")}, "sc1, x", {}) EXCEPT !.unhide = TRUE], HideR({H("t.s.a.com")}, ".deep"), UnhideR({E("a")}, ".deep"),
  \* IDN locations, also in non-first position of a location list
  HideR({H("a.com"), H("пример.рф"), E("пример")}, ".idn"), UnhideR({H("b.com"), H("s.пример.рф")}, ".idn"),
  HideR({H("bücher.a.com"), NH("a.com")}, ".idn2"),
  \* negated hostnames AND negated entities in one rule (both kinds must be honoured)
  HideR({NH("b.com"), NE("a")}, ".mixn"), ActR({E("a"), NH("t.s.a.com"), NE("s.a")}, ".mixa", "remove", ""),
  JsR({E("a"), NH("a.com"), NE("s.a")}, "sc1, m", {}),
  \* two IDN locations that cover disjoint hosts (each must be converted on its own), also negated
  HideR({H("пример.рф"), H("bücher.a.com")}, ".idn3"), HideR({NH("s.пример.рф"), NH("bücher.a.com")}, ".idn4"),
  \* hosts whose name contains the text of their public suffix before the suffix itself
  HideR({H("a.internal")}, ".int"), HideR({E("a"), NH("t.s.a.internal")}, ".ient"), JsR({H("a.internal")}, "sc1, i", {}),
  HideR({E("comcast")}, ".cc"), HideR({E("internet")}, ".inet"), UnhideR({E("s.comcast")}, ".cc"), HideR({H("net")}, ".tldnet"),
  ActR({E("comcast")}, ".cca", "remove", "")
>>
HostsC16 == <<"a.com", "s.a.com", "t.s.a.com", "b.com", "a.co.uk", "s.a.co.uk", "xa.com", "a.b.com", "com", "a.net",
              "пример.рф", "s.пример.рф", "bücher.a.com", "comcast.com", "s.comcast.com", "internet.net", "s.a.net", "t.s.a.net",
              "s.b.com", "co.uk.a.co.uk",
              \* a top-level label that is not in the public suffix list: the default rule applies (the suffix
              \* is the last label), so rules on the registrable domain and on the entity reach the subdomains
              "a.internal", "s.a.internal", "t.s.a.internal">>
\* generichide exceptions; the page is its own source, so domain= names (or negates) the page host
NetC16 == <<"@@||s.a.com^$generichide", "@@||a.co.uk^$generichide", "@@||a.net^$generichide,domain=s.a.net",
            "@@||b.com^$generichide,domain=~s.b.com">>
GhideC16 == {"s.a.com", "t.s.a.com", "a.co.uk", "s.a.co.uk", "co.uk.a.co.uk", "s.a.net", "t.s.a.net", "b.com", "a.b.com"}
StoreStd == {
  [name |-> "sc1.js", aliases |-> {"sc1"}, kind |-> "fn", perm |-> {}, deps |-> {}],
  [name |-> "sc2.js", aliases |-> {}, kind |-> "template", perm |-> {}, deps |-> {}] }

--------------------------------------------------------------------------
\* c17: generic selectors and class/id lookup
SelsC17 == <<".a", ".a-b", "#i", ".a .b", ".a > #i", "#i.a", ".a\\31", ".a\\31 b", ".\\61 b", ".a\\.b", ".é", ".aé b",
             "div.a", "[x]", "..a", ".a:hover", "#i[x]", ".a,.b", ".ab", "#a", ".A", ".-a", "._", "a.b", "*.a", ".\\e9",
             ".x\\3A y", "#\\3a z", ".x\\3A",
             \* a six-digit escape ends after its sixth digit even when a hex digit follows; an escaped blank at either end of a name
             ".\\000061b", ".\\000061 b", "#\\00003aa", "#\\ i", ".a\\  .b", ".\\ a" >>
PoolC17 == [i \in DOMAIN SelsC17 |-> HideR({}, SelsC17[i])]
     \o << UnhideR({H("a.com")}, ".a"), UnhideR({H("a.com")}, ".a .b"), HideR({NH("a.com")}, ".ng"), HideR({NH("a.com")}, "ng2") >>
HostsC17 == <<"a.com", "b.com">>
ClassSetsStd == << {"a"}, {"a-b", "ab"}, {"a1", "a.b"}, {"é", "aé"}, {"A", "-a", "_"}, {"ng"}, {"a1b", "ab"}, {"x:y", "x:"}, {"a ", " a"}, {} >>
IdSetsStd == << {"i"}, {"a"}, {":z"}, {" i", ":a"}, {} >>
\* the parse universe uses the selectors '.x' and '#id > .x'
ClassSets == IF U = "parse" THEN << {"x"}, {} >> ELSE IF U = "rand" THEN << {"x", "y"}, {"y"}, {} >> ELSE ClassSetsStd
IdSets == IF U = "parse" THEN << {"id"}, {} >> ELSE IF U = "rand" THEN << {"i"}, {} >> ELSE IdSetsStd
\* c17b: several complex rules sharing one leading class / id, with exceptions naming some of them
PoolC17b == << HideR({}, ".a .b"), HideR({}, ".a > #i"), HideR({}, ".a:hover"), HideR({}, ".a"), HideR({}, "#i .q"), HideR({}, "#i > .a"),
               HideR({}, "#i"), UnhideR({H("a.com")}, ".a > #i"), UnhideR({H("a.com")}, ".a .b"), UnhideR({H("a.com")}, "#i .q"),
               UnhideR({H("a.com")}, ".a"), UnhideR({H("a.com")}, "#i") >>

--------------------------------------------------------------------------
\* c18: permissions, dependencies, argument spellings
P1 == {0}  P2 == {1}  P12 == {0, 1}
StoreC18 == {
  [name |-> "free.js", aliases |-> {"fr"}, kind |-> "fn", perm |-> {}, deps |-> {}],
  [name |-> "p1.js", aliases |-> {}, kind |-> "fn", perm |-> P1, deps |-> {}],
  [name |-> "p12.js", aliases |-> {}, kind |-> "fn", perm |-> P12, deps |-> {}],
  [name |-> "tpl.js", aliases |-> {}, kind |-> "template", perm |-> {}, deps |-> {}],
  [name |-> "usesp1.js", aliases |-> {}, kind |-> "fn", perm |-> {}, deps |-> {"dep1.fn"}],
  [name |-> "dep1.fn", aliases |-> {}, kind |-> "dep", perm |-> P1, deps |-> {"dep2.fn"}],
  [name |-> "dep2.fn", aliases |-> {}, kind |-> "dep", perm |-> {}, deps |-> {"dep1.fn"}],
  [name |-> "deep.js", aliases |-> {}, kind |-> "fn", perm |-> {}, deps |-> {"mid.fn"}],
  [name |-> "mid.fn", aliases |-> {}, kind |-> "dep", perm |-> {}, deps |-> {"dep1.fn"}],
  \* a second scriptlet over the same unprivileged intermediate: its privileged grandchild must be checked for
  \* every rule, also when a privileged rule has already pulled the intermediate in
  [name |-> "deep2.js", aliases |-> {}, kind |-> "fn", perm |-> {}, deps |-> {"mid.fn"}],
  [name |-> "broken.js", aliases |-> {}, kind |-> "fn", perm |-> {}, deps |-> {"missing.fn"}],
  [name |-> "css.js", aliases |-> {}, kind |-> "other", perm |-> {}, deps |-> {}] }
ArgTexts == <<"free", "fr, a, b", "free.js, \"q,r\", 's'", "free, a\\,b", "free,  sp  ,x", "free, `b q`", "free, \"un", "free, \"a\" x",
              "p1, a", "p12, a", "tpl, a, b", "usesp1", "deep", "deep2, w", "broken", "css", "nosuch, a", "free, $1 $$", "free, a\"b", "free, a\\b",
              "", "free, {\"a\":1}", "free, a1, a2, a3, a4, a5, a6, a7, a8, a9, a10, a11, a12">>
PoolC18 == [i \in DOMAIN ArgTexts |-> JsR({H("a.com")}, ArgTexts[i], {})]
    \o [i \in DOMAIN ArgTexts |-> JsR({H("a.com")}, ArgTexts[i], P1)]
    \o << JsR({H("a.com")}, "p1, b", {}), JsR({H("a.com")}, "p1, c", P2), JsR({H("a.com")}, "usesp1, z", {}),
          JsR({H("a.com")}, "p12, a", P2), JsR({H("a.com")}, "p12, a", P12), JsR({H("a.com")}, "deep", P2),
          [JsR({H("a.com")}, "free", {}) EXCEPT !.unhide = TRUE], [JsR({H("a.com")}, "", {}) EXCEPT !.unhide = TRUE],
          [JsR({H("a.com")}, "fr, a, b", {}) EXCEPT !.unhide = TRUE],
          \* an exception anchored less specifically (entity) than the injection it cancels
          [JsR({E("a")}, "free", {}) EXCEPT !.unhide = TRUE],
          \* one injection text requested at two levels of the host hierarchy by lists with different permissions
          \* (the entity level is collected first)
          JsR({E("a")}, "p1, a", {}), JsR({E("a")}, "usesp1", P1) >>
HostsC18 == <<"a.com">>

--------------------------------------------------------------------------
\* universe "parse": cosmetic lines as TEXT, <locations>#<marker>#<body>; CosParse!ParseCos says whether the
\* line is a rule and which (seeded by the location text)
LocTexts == <<"", "a.com", "~a.com", "a.*", "~a.*", "a.com,b.com", "a.com,~s.a.com", "/re/", "a.com,/re/", ",a.com,", "[x]a.com",
              "s.a.com,~a.*", "~/re/", ",">>
Markers == {"", "@", "?", "@?", "%", "@%", "$", "@$", "x", "@@", "?x"}
Bodies == {".x", "", " ", ".x ", " .x", "+js(sc1, x)", "+js()", "+js(sc1", "^script", ".x:style(color: red)", ".x:style(color: red",
           ".x:remove()", ".x:remove-attr(href)", ".x:remove-attr(/re/)", ".x:remove-class(\"c\")", ".x:remove-class(c)",
           ".x:remove-class('c')", ".x:remove-attr(href) ", "#id > .x", ".x:remove( )"}
HostsParse == <<"a.com", "s.a.com", "b.com", "a.net">>

\* universe "rand": K random lists of 4..12 rules drawn from the whole space of valid rules over a vocabulary of
\* locations (hosts of three suffix kinds incl. an unlisted top-level label, entities, negations), selectors
\* (simple / complex, class / id / neither) and every rule kind.  Odd compositions that no hand-made pool has.
LocAtoms == {H("a.com"), H("s.a.com"), H("t.s.a.com"), H("b.com"), H("a.co.uk"), H("a.internal"), H("s.a.internal"), H("com"),
             E("a"), E("s.a"), E("b"), NH("s.a.com"), NH("a.com"), NE("a"), NH("t.s.a.internal"), NH("s.a.co.uk")}
LocSets == {S \in SUBSET LocAtoms : Cardinality(S) <= 2}
RandSelectors == {".x", ".y", "#i", "div[ad]", ".x > .y", "#i .x", ".x.y"}
ValidRule(r) == /\ ~(r.unhide /\ \E l \in r.locs : l.neg)
                /\ (r.locs = {} => r.kind = "hide" /\ ~r.unhide)
                /\ (r.kind = "js" /\ r.sel = "" => r.unhide)
RuleSpace == IF U # "rand" THEN {} ELSE
  { r \in ( { [C0 EXCEPT !.locs = ls, !.unhide = u, !.kind = "hide", !.sel = sl] : ls \in LocSets, u \in BOOLEAN, sl \in RandSelectors }
         \cup { [C0 EXCEPT !.locs = ls, !.unhide = u, !.kind = k, !.sel = sl, !.arg = (IF k = "remove" THEN "" ELSE "v")] :
                  ls \in LocSets, u \in BOOLEAN, k \in {"style", "remove", "remove-attr", "remove-class"}, sl \in {".x", "#i .x"} }
         \cup { [C0 EXCEPT !.locs = ls, !.unhide = u, !.kind = "js", !.sel = a] : ls \in LocSets, u \in BOOLEAN, a \in {"sc1, x", "sc2", ""} } ) : ValidRule(r) }

Pool == CASE U = "c16" -> PoolC16 [] U = "c17" -> PoolC17 [] U = "c17b" -> PoolC17b [] U = "c18" -> PoolC18 [] OTHER -> <<>>
Hosts == CASE U = "parse" -> HostsParse [] U = "rand" -> HostsC16 [] U = "c16" -> HostsC16 [] U = "c17" -> HostsC17 [] U = "c17b" -> HostsC17 [] U = "c18" -> HostsC18
Store == IF U = "c18" THEN StoreC18 ELSE StoreStd
NetRules == IF U \in {"c16", "rand"} THEN NetC16 ELSE <<>>
Ghide(h) == U \in {"c16", "rand"} /\ h \in GhideC16

RECURSIVE IncSeqs(_, _, _)
IncSeqs(lo, n, k) ==
  IF k = 0 THEN {<<>>}
  ELSE {<<>>} \cup UNION { {<<i>> \o s : s \in IncSeqs(i + 1, n, k - 1)} : i \in lo..n }

NParts == IF U = "parse" THEN Len(LocTexts) ELSE IF U = "rand" THEN K ELSE Len(Pool)
ListsOf(p) == {[j \in 1..Len(s) |-> Pool[s[j]]] : s \in {<<p>> \o t : t \in IncSeqs(p + 1, Len(Pool), K - 1)}}

Init == stage = "seed" /\ part \in 1..NParts /\ L = <<>> /\ raw = ""
Next == /\ stage = "seed" /\ stage' = "case" /\ part' = part
        /\ IF U = "parse"
           THEN \E m \in Markers, b \in Bodies :
                  /\ raw' = LocTexts[part] \o "#" \o m \o "#" \o b
                  /\ L' = LET p == ParseCos(LocTexts[part], m, b) IN IF p.ok THEN <<p.r>> ELSE <<>>
           ELSE IF U = "rand"
           THEN /\ raw' = ""
                /\ L' = SetToSeqC(RandomSubset(RandomElement(4..12), RuleSpace))
           ELSE L' \in ListsOf(part) /\ raw' = ""

--------------------------------------------------------------------------
PermBits(p) == (IF 0 \in p THEN 1 ELSE 0) + (IF 1 \in p THEN 2 ELSE 0)

HostView(h) ==
  LET gh == Ghide(h)
      ex == Unhidden(L, h) IN
  [host |-> h, ghide |-> gh,
   hide |-> HideSelectors(L, h, gh), exceptions |-> ex,
   actions |-> Actions(L, h),
   scripts |-> Scripts(L, Store, h),
   \* Wire (v0): the permission of a +js rule is not part of the image (named deviation
   \* wireDropsScriptPermission): model of the reloaded engine = every rule with no permission
   scripts_union |-> ScriptsUnion(L, Store, h),
   scripts_wire |-> Scripts([i \in DOMAIN L |-> [L[i] EXCEPT !.perm = {}]], Store, h),
   \* C17: lookups with the page's own exception set
   classid |-> IF U \in {"c17", "c17b", "parse", "rand"}
               THEN [c \in DOMAIN ClassSets |-> [i \in DOMAIN IdSets |->
                       [classes |-> ClassSets[c], ids |-> IdSets[i],
                        expect |-> ClassIdLookup(L, ClassSets[c], IdSets[i], ex)]]]
               ELSE <<>>,
   \* selectors whose key cannot be decoded by the spec's escape table: no expectation
   unknown |-> {s \in GenericSelectors(L) : LeadingKey(s).t = "unknown"}]

\* C17 (M1): every generic selector is reachable exactly one way
PartitionOK ==
  stage = "case" =>
    \A s \in GenericSelectors(L) :
      LET k == LeadingKey(s) IN
      k.t = "unknown" \/ ((k.t = "none") <=> (s \in MiscGeneric(L)))

Exported ==
  stage = "case" =>
    PrintT(ToJson([k |-> "cos", u |-> U,
                   rules |-> IF U = "parse" THEN << [text |-> raw, perm |-> 0] >>
                             ELSE [i \in DOMAIN L |-> [text |-> CosText(L[i]), perm |-> PermBits(L[i].perm)]],
                   parse_ok |-> IF U = "parse" THEN <<Len(L) = 1>> ELSE <<>>,
                   net |-> NetRules,
                   views |-> [i \in DOMAIN Hosts |-> HostView(Hosts[i])]]))

ASSUME PrintT(ToJson([k |-> "universe-cos", u |-> U,
         store |-> SetToSeqC({[name |-> x.name, aliases |-> x.aliases, kind |-> x.kind, perm |-> PermBits(x.perm), deps |-> x.deps] : x \in Store})]))
=============================================================================
