----------------------------- MODULE MC_Engine -----------------------------
(***************************************************************************)
(* The engine as a state machine (C06 history independence, C07 tag         *)
(* algebra, C05 explicit optimise, C04 monotone rule addition).             *)
(*                                                                         *)
(* Ideal state:  rules (what is loaded), tags (enabled set), blob (a saved  *)
(*               serialized image = the rules it was taken from).           *)
(* Impl state:   the compiled-regex cache, keyed by the memory address of a *)
(*               rule, and the allocator that places the rules of the       *)
(*               tagged list at nondeterministic free addresses whenever    *)
(*               the tag set changes (src/regex_manager.rs,                 *)
(*               src/blocker.rs tags_with_set).                             *)
(* Every query's answer must be the Ideal answer for (rules, tags): it may  *)
(* depend on nothing else.  TLC explores every history up to Depth, checks  *)
(* that the Impl layer keeps that invariant, and exports each history with  *)
(* the Ideal answers for replay on one long-lived real Blocker / Engine.    *)
(***************************************************************************)
EXTENDS Net, TLC, Json

CONSTANTS Mode,        \* "blocker": add_filter/optimize available; "engine": serialize/deserialize
          Depth,       \* number of operations per history (the last one is a query)
          DevRegexKeyedByAddress,   \* TRUE = model the pre-fix behaviour (cache survives re-tagging)
          Allocs,      \* "any": every placement of re-allocated rules; "first": lowest free addresses
          InitSet,     \* "full" | "notagblock" (no tagged blocking rule in the list)
          Ops,         \* "all" | "tags" (only tag assignment, discard and query: deeper histories)
                       \* | "res" (resources, serialize/deserialize) | "radd" (resources and add_filter)
                       \* | "all5" (as "all" with three addable rules)
                       \* | "res" (resource loading, save/load, discard and query; InitSet "res")
          Export

VARIABLES rules, tags, blob, hist, heap, cache,
          store        \* resources handed to the engine since the last use_resources, in order (pool indices)
vars == <<rules, tags, blob, hist, heap, cache, store>>

B(s) == Chars(s)
W(s) == [R0 EXCEPT !.body = B(s)]

\* rule pool: two tagged regex rules + plain/tagged/exception/important/csp rules
Pool == <<
  [W("/aaa^bbb") EXCEPT !.tag = "t1"],                      \* 1 regex, tag t1
  [W("/ccc^ddd") EXCEPT !.tag = "t2"],                      \* 2 regex, tag t2
  [W("https://x.com/eee^") EXCEPT !.left = "pipe"],         \* 3 left-anchored regex, untagged
  [W("/ab/a") EXCEPT !.tag = "t1"],                          \* 4 plain, tag t1
  [W("/aaa") EXCEPT !.exc = TRUE, !.tag = "t2"],            \* 5 exception, tag t2
  [W("/ccc^") EXCEPT !.important = TRUE, !.tag = "t1"],      \* 6 important regex, tag t1
  [W("x.com^") EXCEPT !.left = "dpipe", !.mkind = "csp", !.mval = "d1", !.tag = "t2"],   \* 7 csp, tag t2
  [W("/fff*ggg") EXCEPT !.right = TRUE],                    \* 8 right-anchored regex, untagged
  [W("/hhh/iii") EXCEPT !.tag = "t2"],                      \* 9 addable tagged plain rule
  W("/ab-"), W("/ab_"),                                     \* 10, 11 fusable plain rules sharing a bucket
  W("/ab."),                                                \* 12 addable, same bucket and mask as 10, 11
  W("/aaa"),                                                \* 13 untagged block (for the tagged exception)
  [W("x.com^") EXCEPT !.left = "dpipe", !.mkind = "removeparam", !.mval = "q", !.important = TRUE],  \* 14 addable: category precedence
  \* 15-19: redirect rules naming resources / aliases of ResPool (InitSet "res")
  [W("x.com/aaa") EXCEPT !.left = "dpipe", !.mkind = "redirect", !.mval = "al1"],
  [W("/ccc") EXCEPT !.mkind = "redirect-rule", !.mval = "r2"],
  [W("/ab/a") EXCEPT !.mkind = "redirect", !.mval = "p1"],
  [W("/eee") EXCEPT !.mkind = "redirect", !.mval = "r1", !.prio = "1"],
  [W("/eee") EXCEPT !.mkind = "redirect", !.mval = "al1"],
  \* 20, 21: addable redirect rules (a $redirect rule also blocks; a $redirect-rule does not)
  [W("/jjj") EXCEPT !.mkind = "redirect", !.mval = "r1"],
  [W("/kkk") EXCEPT !.mkind = "redirect-rule", !.mval = "r1"],
  \* 22-24: a token-less rule with two $domain= values is filed once per domain; added one at a time it must
  \* reach both buckets, which already exist (23, 24 are part of the initial list)
  [W("*") EXCEPT !.pos = {"script"}, !.dom = {"y.com", "z.com"}],
  [W("*") EXCEPT !.pos = {"image"}, !.dom = {"z.com"}],
  [W("*") EXCEPT !.pos = {"image"}, !.dom = {"y.com"}],
  \* 25-27: the same for csp rules (25 addable; 26, 27 part of the initial list)
  [W("*") EXCEPT !.mkind = "csp", !.mval = "d2", !.dom = {"y.com", "z.com"}],
  [W("*") EXCEPT !.mkind = "csp", !.mval = "d3", !.dom = {"z.com"}],
  [W("*") EXCEPT !.mkind = "csp", !.mval = "d4", !.dom = {"y.com"}],
  \* 28: the untagged twin of rule 7 (same pattern and directive, no tag): a different rule, must be accepted
  [W("x.com^") EXCEPT !.left = "dpipe", !.mkind = "csp", !.mval = "d1"],
  \* 29: a redirect-rule EXCEPTION is also an exception (rule 10 blocks /ab-)
  [W("/ab-") EXCEPT !.exc = TRUE, !.mkind = "redirect-rule", !.mval = "r1"],
  \* 30, 31: two $removeparam rules with one pattern, mask and bucket (initial list): the removeparam list is never
  \* optimised - fused, only the first rule's parameter would still be removed
  [W("/p") EXCEPT !.mkind = "removeparam", !.mval = "q"],
  [W("/p") EXCEPT !.mkind = "removeparam", !.mval = "r"],
  \* 32 (addable, InitSet "res"): a redirect EXCEPTION added one at a time must cancel the redirects to its resource
  \* (rule 16 is the only redirect for /ccc)
  [W("/ccc") EXCEPT !.exc = TRUE, !.mkind = "redirect-rule", !.mval = "r2"],
  \* 33 (addable): a TAGGED csp rule added one at a time is a csp rule (not a blocking rule) while its tag is on
  [W("x.com^") EXCEPT !.left = "dpipe", !.mkind = "csp", !.mval = "d5", !.tag = "t1"],
  \* 34 (addable): an exception that carries $important is an EXCEPTION (rule 10 blocks /ab-)
  [W("/ab-") EXCEPT !.exc = TRUE, !.important = TRUE],
  \* 35 (InitSet "res"): a redirect to the resource / alias zal
  [W("/zzz") EXCEPT !.mkind = "redirect", !.mval = "zal"]
>>
\* resources (C06: answers are a function of the LOADED resources): r1 has the alias al1, a later resource
\* NAMED al1 collides with it - whichever is added first wins; p1 needs a permission and is never served
ResPool == <<
  [name |-> "r1", aliases |-> {"al1"}, redirectable |-> TRUE, perm |-> 0, kind |-> "text/plain", content |-> "r1"],
  [name |-> "r2", aliases |-> {}, redirectable |-> TRUE, perm |-> 0, kind |-> "application/javascript", content |-> "r2"],
  [name |-> "al1", aliases |-> {}, redirectable |-> TRUE, perm |-> 0, kind |-> "text/plain", content |-> "al1"],
  [name |-> "p1", aliases |-> {}, redirectable |-> TRUE, perm |-> 1, kind |-> "text/plain", content |-> "p1"],
  [name |-> "yy", aliases |-> {"al1"}, redirectable |-> TRUE, perm |-> 0, kind |-> "text/plain", content |-> "yy"],
  \* zz is refused whenever r1 / al1 / yy came first (it shares the alias al1): NONE of its other aliases may stay
  \* registered, so that the resource NAMED zal can still be added afterwards (rule 35 redirects to zal)
  [name |-> "zz", aliases |-> {"zal", "al1", "zbl"}, redirectable |-> TRUE, perm |-> 0, kind |-> "text/plain", content |-> "zz"],
  [name |-> "zal", aliases |-> {}, redirectable |-> TRUE, perm |-> 0, kind |-> "text/plain", content |-> "zal"]
>>
ResSeq(st) == [i \in DOMAIN st |-> ResPool[st[i]]]
StoreNow == EffectiveStore(ResSeq(store))
UseChoices == {<<>>, <<1, 2>>, <<3, 1>>, <<1, 3, 4>>, <<2>>, <<1, 5>>, <<5, 1>>}
PoolX == Pool
\* (the removeparam rules 30, 31 in blocker mode only: an image does not carry removeparam rules - open finding
\* wireDropsRemoveparam, decided by C08 - so an engine that reloads would lose them)
InitRules == IF InitSet = "full" THEN <<1, 2, 3, 4, 5, 6, 7, 8, 10, 11, 23, 24, 26, 27>> \o (IF Mode = "blocker" THEN <<30, 31>> ELSE <<>>)
             ELSE IF InitSet = "res" THEN <<15, 16, 17, 18, 19, 13, 3, 35>> ELSE <<3, 5, 7, 13>>
Addable == IF Mode # "blocker" THEN {} ELSE IF InitSet = "res" THEN {20, 21, 29, 32} ELSE {9, 12, 14, 20, 21, 22, 25, 28, 29, 33, 34}

MkReq(path, alias) ==
  LET pre == Chars("https://") h == Chars("x.com") IN
  [url |-> pre \o h \o Chars(path), hs |-> Len(pre) + 1, he |-> Len(pre) + Len(h),
   scheme |-> "https", alias |-> alias, src |-> Chars("y.com"), tp |-> TRUE]
Reqs == << MkReq("/aaa/bbb", "script"), MkReq("/ccc/ddd", "script"), MkReq("/eee/zz", "image"),
           MkReq("/ab/a", "script"), MkReq("/ccc/", "script"), MkReq("/", "document"),
           MkReq("/fff/x/ggg", "script"), MkReq("/hhh/iii", "script"), MkReq("/aaa-bbb", "script"),
           MkReq("/ab-x", "script"), MkReq("/ab_x", "script"), MkReq("/ab.x", "script"), MkReq("/p?q=1&r=2", "xhr"),
           MkReq("/jjj", "script"), MkReq("/kkk", "script"),
           [MkReq("/zzz", "script") EXCEPT !.src = Chars("z.com")], [MkReq("/zzz", "image") EXCEPT !.src = Chars("s.z.com")],
           [MkReq("/zzz", "document") EXCEPT !.src = Chars("z.com")] >>

TagSets == SUBSET {"t1", "t2"}
RuleSeq(rs) == [i \in DOMAIN rs |-> PoolX[rs[i]]]

--------------------------------------------------------------------------
\* Impl layer: regex cache keyed by address
Addr == 1..4
NONE == 0
IsRegexRule(i) == HasRegexChar(PoolX[i].body)
\* rules that live in the tagged list (re-allocated on every tag change)
TaggedListRules(rs, T) == {i \in SeqToSet(rs) : PoolX[i].tag # "" /\ PoolX[i].tag \in T /\ Kind(PoolX[i]) = "block"
                                                  /\ IsRegexRule(i)}   \* only regex rules touch the cache

\* which rule's compiled pattern is used when rule i is matched
UsedPattern(i) ==
  IF i \in DOMAIN heap /\ cache[heap[i]] # NONE THEN cache[heap[i]] ELSE i

\* Impl hit: rule i matched with the pattern of rule UsedPattern(i)
ImplHits(q) ==
  [k \in DOMAIN rules |->
     LET i == rules[k] r == PoolX[i] p == PoolX[UsedPattern(i)] IN
     ImplHitM([r EXCEPT !.body = p.body, !.left = p.left, !.right = p.right], Reqs[q])]

ImplVerdict(q) == VerdictsFor(RuleSeq(rules), ImplHits(q), tags, StoreNow, Reqs[q])
ImplCspOut(q) == CspFor(RuleSeq(rules), ImplHits(q), tags, Reqs[q])
IdealV(q) == IdealVerdicts(RuleSeq(rules), tags, StoreNow, Reqs[q])
IdealC(q) == IdealCsp(RuleSeq(rules), tags, Reqs[q])

\* re-tagging: the new tagged list is allocated while the old one is still live
\* (any injective placement into addresses not used by the old list), then the
\* old one is freed; with the fix the cache is dropped
Place(newRules, newTags) ==
  LET need == TaggedListRules(newRules, newTags)
      free == Addr \ {heap[i] : i \in DOMAIN heap}
      Inj(f) == \A a, b \in need : a # b => f[a] # f[b]
      cands == {f \in [need -> free] : Inj(f)} IN
  /\ IF Allocs = "any" THEN \E f \in cands : heap' = f
      ELSE LET Rank(x, S) == Cardinality({y \in S : y < x}) + 1
               Kth(S, k) == CHOOSE x \in S : Rank(x, S) = k IN
           heap' = [a \in need |-> Kth(free, Rank(a, need))]
Retag(newRules, newTags) ==
  /\ Place(newRules, newTags)
  /\ cache' = IF DevRegexKeyedByAddress THEN cache ELSE [a \in Addr |-> NONE]

--------------------------------------------------------------------------
\* actions (one per public mutator; Query is the whole probe battery)
Op(o) == hist' = Append(hist, o)

SetTags(name, S, newT) ==
  /\ Len(hist) < Depth - 1
  /\ tags' = newT /\ UNCHANGED <<rules, blob>>
  /\ Retag(rules, newT)
  /\ UNCHANGED store /\ Op([op |-> name, tags |-> S, now |-> newT])

UseTags(S) == SetTags("use", S, S)
EnableTags(S) == SetTags("enable", S, tags \cup S)
DisableTags(S) == SetTags("disable", S, tags \ S)

\* Blocker::add_filter: a rule that is already stored is refused (FilterExists) and nothing changes; the
\* duplicate test is best effort on an optimised engine (a fused rule hides its members), where a second
\* copy may be stored - which changes no answer
ReAddable == IF Mode = "blocker" /\ InitSet = "full" THEN {3, 10} ELSE {}
AddFilter(i) ==
  /\ Mode = "blocker" /\ Len(hist) < Depth - 1
  /\ LET exists == i \in SeqToSet(rules) IN
     /\ (exists => i \in ReAddable)
     /\ rules' = IF exists THEN rules ELSE Append(rules, i)
     /\ UNCHANGED <<tags, blob>>
     /\ IF ~exists /\ PoolX[i].tag # "" THEN Retag(Append(rules, i), tags) ELSE UNCHANGED <<heap, cache>>
     /\ UNCHANGED store /\ Op([op |-> "add", rule |-> RuleText(PoolX[i]), now |-> tags, exists |-> exists])

Optimize ==
  /\ Mode = "blocker" /\ Len(hist) < Depth - 1
  /\ UNCHANGED <<rules, tags, blob>>
  /\ Retag(rules, tags)                 \* optimisation moves every rule to a new allocation
  /\ UNCHANGED store /\ Op([op |-> "optimize", now |-> tags])

\* discard policy 1ns/0 + time passing, or discard_regex on every entry: all compiled regexes go
Discard ==
  /\ Len(hist) < Depth - 1
  /\ cache' = [a \in Addr |-> NONE] /\ UNCHANGED <<rules, tags, blob, heap>>
  /\ UNCHANGED store /\ Op([op |-> "discard", now |-> tags])

Serialize ==
  /\ Mode = "engine" /\ Len(hist) < Depth - 1
  /\ blob' = rules /\ UNCHANGED <<rules, tags, heap, cache>>
  /\ UNCHANGED store /\ Op([op |-> "serialize", now |-> tags])

\* loading replaces the rules, keeps the caller's enabled tags, starts with an empty cache
Deserialize ==
  /\ Mode = "engine" /\ Len(hist) < Depth - 1 /\ blob # <<>>
  /\ rules' = blob /\ UNCHANGED <<tags, blob>>
  /\ Place(blob, tags)
  /\ cache' = [a \in Addr |-> NONE]      \* a fresh Blocker comes with a fresh regex manager
  /\ UNCHANGED store /\ Op([op |-> "deserialize", now |-> tags])

\* a load that is refused (a truncated image) leaves rules, tags and cache alone
BadLoad ==
  /\ Mode = "engine" /\ Ops \in {"all", "all5"} /\ Len(hist) < Depth - 1
  /\ UNCHANGED <<rules, tags, blob, heap, cache, store>> /\ Op([op |-> "badload", now |-> tags])

\* a query compiles (and caches) the regex of every regex rule of the tagged list it consults
Query ==
  /\ Len(hist) < Depth
  /\ cache' = [a \in Addr |->
       IF cache[a] # NONE THEN cache[a]
       ELSE LET at == {i \in DOMAIN heap : heap[i] = a /\ IsRegexRule(i)} IN
            IF at = {} THEN NONE ELSE CHOOSE i \in at : TRUE]
  /\ UNCHANGED <<rules, tags, blob, heap>>
  /\ UNCHANGED store /\ Op([op |-> "q", now |-> tags,
         v |-> [q \in DOMAIN Reqs |-> IdealV(q)], csp |-> [q \in DOMAIN Reqs |-> IdealC(q)]])

\* use_resources replaces the store; add_resource appends (and reports whether the resource was accepted).
\* Neither touches rules, tags or the regex cache.
UseResources(sq) ==
  /\ Ops \in {"res", "radd"} /\ Len(hist) < Depth - 1
  /\ store' = sq /\ UNCHANGED <<rules, tags, blob, heap, cache>>
  /\ Op([op |-> "useres", res |-> [i \in DOMAIN sq |-> ResPool[sq[i]].name], now |-> tags])
AddResource(i) ==
  /\ Ops \in {"res", "radd"} /\ Len(hist) < Depth - 1 /\ Len(store) < 4
  /\ store' = Append(store, i) /\ UNCHANGED <<rules, tags, blob, heap, cache>>
  /\ Op([op |-> "addres", res |-> ResPool[i].name, now |-> tags,
         ok |-> (ResPool[i] \in EffectiveStore(ResSeq(Append(store, i))) /\ ResPool[i] \notin StoreNow)])

Init == /\ store = <<>> /\ rules = InitRules /\ tags = {} /\ blob = <<>> /\ hist = <<>>
        /\ heap = [i \in {} |-> 0] /\ cache = [a \in Addr |-> NONE]

Next == \/ (Ops \notin {"res", "radd"} /\ \E S \in TagSets : UseTags(S))
        \/ (\E sq \in UseChoices : UseResources(sq)) \/ (\E i \in DOMAIN ResPool : AddResource(i))
        \/ (Ops = "res" /\ (Serialize \/ Deserialize))
        \/ (Ops \in {"all", "all5"} /\ \E t \in {"t1", "t2"} : EnableTags({t}) \/ DisableTags({t}))
        \/ (Ops \in {"all", "radd"} /\ \E i \in Addable \cup ReAddable : AddFilter(i))
        \/ (Ops \in {"all", "all5"} /\ (Optimize \/ Serialize \/ Deserialize \/ BadLoad))
        \* "all5": every operation, but only three of the addable rules (deeper histories at the same cost)
        \/ (Ops = "all5" /\ \E i \in (Addable \cap {9, 12, 14}) \cup ReAddable : AddFilter(i))
        \/ Discard \/ Query

--------------------------------------------------------------------------
\* C06 (M1): in every reachable state the Impl answer is an Ideal answer for (rules, tags)
HistoryIndependent ==
  \A q \in DOMAIN Reqs : ImplVerdict(q) \subseteq IdealV(q) /\ ImplCspOut(q) \in IdealC(q)

\* C07 (M1): the tag algebra as an action property
TagAlgebra ==
  [][ /\ (Len(hist') > Len(hist) /\ hist'[Len(hist')].op = "use") => tags' = hist'[Len(hist')].tags
      /\ (Len(hist') > Len(hist) /\ hist'[Len(hist')].op = "enable") => tags' = tags \cup hist'[Len(hist')].tags
      /\ (Len(hist') > Len(hist) /\ hist'[Len(hist')].op = "disable") => tags' = tags \ hist'[Len(hist')].tags
      /\ (Len(hist') > Len(hist) /\ hist'[Len(hist')].op \in {"deserialize", "serialize", "discard", "optimize", "add", "q", "useres", "addres", "badload"}) => tags' = tags
    ]_vars

\* M2 export: complete histories (the last operation is a query)
Exported ==
  (Export /\ Len(hist) = Depth /\ hist[Depth].op = "q") =>
     PrintT(ToJson([k |-> "hist", mode |-> Mode, init |-> [i \in DOMAIN InitRules |-> RuleText(PoolX[InitRules[i]])],
                    ops |-> hist]))

\* the machine stops at Depth
Bounded == Len(hist) <= Depth

ASSUME PrintT(ToJson([k |-> "universe",
         reqs |-> [q \in DOMAIN Reqs |-> [url |-> Str(Reqs[q].url), alias |-> Reqs[q].alias, src |-> "https://" \o Str(Reqs[q].src) \o "/"]],
         res |-> IF InitSet = "res" THEN ResPool ELSE <<>>]))
=============================================================================
