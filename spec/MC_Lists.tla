----------------------------- MODULE MC_Lists -----------------------------
(***************************************************************************)
(* C11 (relational clauses): a list is a sequence of lines; every line has, *)
(* per format, an outcome the specification knows by construction:          *)
(*   std   \in {"net","cos","rej"}   under FilterFormat::Standard           *)
(*   hosts = the hostname accepted under FilterFormat::Hosts, "" if rejected *)
(* The engine built from a list under (format, rule_types) must equal the    *)
(* engine built, with default options, from the reference lines: the        *)
(* accepted lines themselves, or '||host^' for accepted hosts entries.       *)
(* Rejected lines have no influence (line independence).                    *)
(* anchors: src/lists.rs:415-488,503-568                                    *)
(***************************************************************************)
EXTENDS Naturals, Sequences, FiniteSets, TLC, Json

CONSTANT K
VARIABLES stage, part, L, fmt, rt
vars == <<stage, part, L, fmt, rt>>

Ln(t, s, h) == [text |-> t, std |-> s, hosts |-> h, key |-> "", val |-> ""]
\* a special comment "! Key: value"; val = "" when the value is not acceptable (Expires out of range ...)
Mt(t, k, v) == [text |-> t, std |-> "rej", hosts |-> "", key |-> k, val |-> v]
Lines == <<
  Ln("||ab.ba^", "net", ""), Ln("/ab-$script", "net", ""), Ln("@@||ab.ba/ok^", "net", ""), Ln("  ||x.com^$third-party  ", "net", ""),
  Ln("ab.ba##.x", "cos", "ab.ba"), Ln("##.g", "cos", ""), Ln("ab.ba#@#.x", "cos", "ab.ba"), Ln("ab.ba##+js(sc1, x)", "cos", "ab.ba"),
  Ln("! comment", "rej", ""), Ln("[Adblock Plus 2.0]", "rej", ""), Ln("#", "rej", ""), Ln("# comment", "rej", ""),
  Ln("||ab.ba^$unknownopt", "rej", ""), Ln("||ab.ba^$~badfilter", "rej", ""), Ln("||ab.ba^$redirect=", "rej", ""),
  Ln("ab.ba#%#x", "rej", "ab.ba"), Ln("ab.ba##", "rej", "ab.ba"), Ln("", "rej", ""), Ln("   ", "rej", ""), Ln("ab.ba$$script", "rej", ""),
  Ln("ab.ba##^script", "rej", "ab.ba"), Ln("a", "rej", ""), Ln("#@#.x", "rej", ""), Ln("##+js(sc1)", "rej", ""),
  Ln("||ab.ba^$csp=x,script", "rej", ""), Ln("||ab.ba^$removeparam=", "rej", ""), Ln("@@||ab.ba^$removeparam=x", "rej", ""),
  Ln("||ab.ba^$match-case", "rej", ""), Ln("||ab.ba^$generichide", "rej", ""), Ln("ab.ba##.x:style(", "rej", "ab.ba"),
  Ln("127.0.0.1 ab.ba", "net", "ab.ba"), Ln("0.0.0.0 x.com # c", "net", "x.com"), Ln("s.ab.ba", "net", "s.ab.ba"), Ln("::1 www.x.com", "net", "www.x.com"), Ln("0.0.0.0 www.www.x.com", "net", "www.www.x.com"), Ln("www.www.x.com", "net", "www.www.x.com"),
  Ln("127.0.0.1 localhost", "net", ""), Ln("127.0.0.1 a b", "net", ""), Ln("ab", "net", ""), Ln("ab.ba/x", "net", ""), Ln(".ba", "net", ""),
  Ln("ab.ba.", "net", ""), Ln("AB.Ba", "net", "AB.Ba"), Ln("\t0.0.0.0\t\tx.com", "net", "x.com"),
  \* list metadata ("special comments"): first occurrence of a key wins; Expires is 1..14 days or 1..336 hours
  Mt("! Title: A", "Title", "A"), Mt("! Title: B b: c", "Title", "B b: c"), Mt("! Homepage: http://h", "Homepage", "http://h"),
  Mt("! Redirect: http://r", "Redirect", "http://r"), Mt("! Expires: 4 days", "Expires", "days:4"), Mt("! Expires: 1 hour", "Expires", "hours:1"),
  Mt("! Expires: 14 days (update frequency)", "Expires", "days:14"), Mt("! Expires: 336 hours", "Expires", "hours:336"),
  Mt("! Expires: 0 days", "Expires", ""), Mt("! Expires: 15 days", "Expires", ""), Mt("! Expires: 337 hours", "Expires", ""),
  Mt("! Expires: +3 days", "Expires", ""), Mt("! Expires: 3 weeks", "Expires", ""), Mt("! Expires: 3  days", "Expires", ""),
  Mt("! Expires: 1 day", "Expires", "days:1"), Mt("!Title: X", "", ""), Mt("! title: x", "", ""), Mt("! Title", "", ""),
  \* amounts around the limits of the integer types a parser may use (u8: 255/256, u16: 65535/65536, 24 x 2731 > 65535)
  Mt("! Expires: 255 days", "Expires", ""), Mt("! Expires: 256 days", "Expires", ""), Mt("! Expires: 270 days", "Expires", ""),
  Mt("! Expires: 2731 days", "Expires", ""), Mt("! Expires: 65535 days", "Expires", ""), Mt("! Expires: 65536 days", "Expires", ""),
  Mt("! Expires: 65537 hours", "Expires", ""), Mt("! Expires: 65872 hours", "Expires", ""), Mt("! Expires: 4294967297 days", "Expires", ""),
  Mt("! Expires: 0 hours", "Expires", ""), Mt("! Expires: -1 days", "Expires", ""), Mt("! Expires: 014 days", "Expires", "days:14")
>>

Accepted(l, f, r) ==
  IF f = "standard" THEN (l.std = "net" /\ r \in {"all", "network"}) \/ (l.std = "cos" /\ r \in {"all", "cosmetic"})
  ELSE l.hosts # "" /\ r \in {"all", "network"}
Reference(l, f) == IF f = "standard" THEN l.text ELSE "||" \o l.hosts \o "^"

RECURSIVE IncSeqs(_, _, _)
IncSeqs(lo, n, k) ==
  IF k = 0 THEN {<<>>}
  ELSE {<<>>} \cup UNION { {<<i>> \o s : s \in IncSeqs(i + 1, n, k - 1)} : i \in lo..n }

Init == stage = "seed" /\ part \in 1..Len(Lines) /\ L = <<>> /\ fmt = "" /\ rt = ""
Next == /\ stage = "seed" /\ stage' = "case" /\ part' = part
        /\ L' \in {[j \in 1..Len(s) |-> Lines[s[j]]] : s \in {<<part>> \o t : t \in IncSeqs(part + 1, Len(Lines), K - 1)}}
        /\ fmt' \in {"standard", "hosts"} /\ rt' \in {"all", "network", "cosmetic"}

\* line independence on the Ideal: the reference list of a concatenation is the concatenation
RefList(l, f, r) == SelectSeq([i \in DOMAIN l |-> IF Accepted(l[i], f, r) THEN Reference(l[i], f) ELSE "\n"], LAMBDA x : x # "\n")
Independent ==
  stage = "case" => \A i \in 0..Len(L) :
     RefList(L, fmt, rt) = RefList(SubSeq(L, 1, i), fmt, rt) \o RefList(SubSeq(L, i + 1, Len(L)), fmt, rt)

\* metadata of a sequence of lines: per key, the value of the first line carrying that key with an
\* acceptable value ("" = absent)
MetaOf(l) ==
  [k \in {"Title", "Homepage", "Expires", "Redirect"} |->
     LET idx == {i \in DOMAIN l : l[i].key = k /\ l[i].val # ""} IN
     IF idx = {} THEN "" ELSE l[CHOOSE i \in idx : \A j \in idx : i <= j].val]
\* read_list_metadata only reads the head of the list: up to the first line that is neither a comment
\* nor a '[...]' header (blank lines included)
IsHeadLine(x) == Len(x.text) > 0 /\ (SubSeq(x.text, 1, 1) = "!" \/ SubSeq(x.text, 1, 1) = "[")
HeadOf(l) == LET stop == {i \in DOMAIN l : ~IsHeadLine(l[i])} IN
             IF stop = {} THEN l ELSE SubSeq(l, 1, (CHOOSE i \in stop : \A j \in stop : i <= j) - 1)

Exported ==
  stage = "case" =>
    PrintT(ToJson([k |-> "list", lines |-> [i \in DOMAIN L |-> L[i].text], format |-> fmt, rule_types |-> rt,
                   reference |-> RefList(L, fmt, rt), meta_all |-> MetaOf(L), meta_head |-> MetaOf(HeadOf(L)),
                   nnet |-> Cardinality({i \in DOMAIN L : Accepted(L[i], fmt, rt) /\ (fmt = "hosts" \/ L[i].std = "net")}),
                   ncos |-> Cardinality({i \in DOMAIN L : Accepted(L[i], fmt, rt) /\ fmt = "standard" /\ L[i].std = "cos"})]))
=============================================================================
