------------------------------ MODULE MC_Net ------------------------------
(***************************************************************************)
(* Bounded universes for the network-side properties.  One TLC state per    *)
(* (rule list, enabled tag set); for every request of the universe the      *)
(* Ideal set of allowed verdicts / CSP results is computed and exported for  *)
(* replay on real engines (optimised and not).  U selects the universe:      *)
(*   "c03"  single rules: option atoms x party x domain lists x rule shapes  *)
(*          against aliases x schemes x source relations                     *)
(*   "c01"  lists of <= K rules from a pool rich in token-boundary cases,    *)
(*          precedence categories, tags and badfilter twins                  *)
(*   "c13"  redirect rules x priorities x resources x exceptions             *)
(*   "c14"  removeparam rules x query-string shapes                          *)
(*   "c15"  csp rules / exceptions x request types x tags                    *)
(***************************************************************************)
EXTENDS Optimizer, TLC, Json, Randomization

CONSTANTS U, K, Big

VARIABLES stage, part, L, T
vars == <<stage, part, L, T>>

--------------------------------------------------------------------------
\* request construction
RegDomain(h) ==   \* universes only use single-label public suffixes
  LET ls == Split(h, ".") n == Len(Split(h, ".")) IN
  IF n <= 2 THEN h ELSE ls[n - 1] \o <<".">> \o ls[n]

MkReq(scheme, host, path, alias, src) ==
  LET pre == Chars(scheme) \o Chars("://")
      h == Chars(host) IN
  [url |-> pre \o h \o Chars(path), hs |-> Len(pre) + 1, he |-> Len(pre) + Len(h),
   scheme |-> scheme, alias |-> alias, src |-> Chars(src),
   tp |-> src = "" \/ RegDomain(Chars(src)) # RegDomain(h)]

\* a URL without an authority ('data:text/plain,ab'): it has no host, it can only be handed to the engine as a
\* pre-parsed request, and its scheme is never one of the supported ones
MkReqOpaque(scheme, rest, alias, src) ==
  [url |-> Chars(scheme) \o <<":">> \o Chars(rest), hs |-> Len(Chars(scheme)) + 2, he |-> Len(Chars(scheme)) + 1,
   scheme |-> scheme, alias |-> alias, src |-> Chars(src), tp |-> TRUE]

B(s) == Chars(s)

--------------------------------------------------------------------------
\* universe c03
TypeAtoms == {<<t, TRUE>> : t \in NetTypes \cup {"document"}} \cup {<<t, FALSE>> : t \in NetTypes}
\* thorough tier: every pair of atoms over the types that have special handling (document, websocket,
\* the frame and xhr aliases) plus every single atom; quick tier: single atoms and hand-picked pairs
PairTypes == {"script", "image", "document", "websocket", "xmlhttprequest", "subdocument"}
AtomSets == {S \in SUBSET TypeAtoms : Cardinality(S) <= 1}
          \cup (IF Big THEN {S \in SUBSET {a \in TypeAtoms : a[1] \in PairTypes} : Cardinality(S) = 2} ELSE
                { {<<"script", TRUE>>, <<"image", FALSE>>}, {<<"script", TRUE>>, <<"image", TRUE>>},
                  {<<"script", FALSE>>, <<"image", FALSE>>}, {<<"document", TRUE>>, <<"script", FALSE>>},
                  {<<"document", TRUE>>, <<"script", TRUE>>}, {<<"websocket", TRUE>>, <<"xmlhttprequest", FALSE>>},
                  {<<"subdocument", FALSE>>, <<"document", TRUE>>}, {<<"script", TRUE>>, <<"script", FALSE>>} })
PosOf(S) == {a[1] : a \in {x \in S : x[2]}}
NegOf(S) == {a[1] : a \in {x \in S : ~x[2]}}
\* the last variant lists one domain both ways: exclusions win, so the rule applies to no source at all
DomVariants == { <<{}, {}>>, <<{"a.com"}, {}>>, <<{}, {"a.com"}>>, <<{"a.com"}, {"s.a.com"}>>, <<{"a.com"}, {"a.com"}>> }
ShapesC03 ==
  { [R0 EXCEPT !.body = B("ab")],
    [R0 EXCEPT !.body = B("ab"), !.exc = TRUE],
    [R0 EXCEPT !.left = "dpipe", !.body = B("ab.com^")],
    [R0 EXCEPT !.left = "pipe", !.body = B("http://")],
    [R0 EXCEPT !.left = "pipe", !.body = B("ws://")],
    [R0 EXCEPT !.body = B("ab"), !.mkind = "removeparam", !.mval = "ab"],
    [R0 EXCEPT !.body = B("ab"), !.important = TRUE] }
RulesC03 ==
  { [s EXCEPT !.pos = PosOf(S), !.neg = NegOf(S), !.party = pa, !.dom = d[1], !.ndom = d[2]] :
      s \in ShapesC03, S \in AtomSets, pa \in {"any", "3p", "1p"}, d \in DomVariants }
AliasesC03 == IF Big
  THEN {"beacon", "document", "main_frame", "font", "image", "imageset", "media", "object",
        "object_subrequest", "ping", "script", "stylesheet", "sub_frame", "subdocument", "websocket",
        "xhr", "xmlhttprequest", "other", "speculative", "web_manifest", "xbl", "xml_dtd", "xslt", "foo", "csp_report"}
  ELSE {"beacon", "document", "main_frame", "font", "image", "ping", "script",
        "sub_frame", "websocket", "xhr", "other", "csp_report"}
ReqsC03 == SetToSeqD(
  { MkReq(sc, "ab.com", "/ab?ab=1", al, src) :
      sc \in {"https", "http", "ws", "wss", "ftp"}, al \in AliasesC03,
      src \in {"ab.com", "a.com", "s.a.com", "x.s.a.com", "b.com", ""} }
  \cup { MkReqOpaque(sc, "text/ab,ab.com/ab?ab=1", al, src) : sc \in {"data", "blob"}, al \in {"script", "image", "document"}, src \in {"ab.com", ""} })

--------------------------------------------------------------------------
\* universe c01: token-boundary, precedence, tags, badfilter
W(s) == [R0 EXCEPT !.body = B(s)]
PoolC01 == <<
  W("ab/ba/bab"), W("ba/abb/ab"), W("/ab/a"), W("ab"), W("bab^"), W("/abb*ba"),
  [W("ab.ba/ab") EXCEPT !.left = "dpipe"], [W("ab.ba^") EXCEPT !.left = "dpipe"],
  [W("ba^") EXCEPT !.left = "dpipe"], [W("ab.ba/bab") EXCEPT !.left = "dpipe", !.right = TRUE],
  [W("https://ab.ba/ab") EXCEPT !.left = "pipe"], [W("/bab") EXCEPT !.right = TRUE],
  [W("http://") EXCEPT !.left = "pipe"], [W("bab") EXCEPT !.right = TRUE],
  [W("ab/ba") EXCEPT !.exc = TRUE], [W("/bab") EXCEPT !.exc = TRUE],
  [W("ab.ba^") EXCEPT !.left = "dpipe", !.exc = TRUE],
  [W("/ab/a") EXCEPT !.important = TRUE], [W("bab") EXCEPT !.important = TRUE, !.tag = "t1"],
  [W("/ab/a") EXCEPT !.tag = "t1"], [W("abb") EXCEPT !.tag = "t2"],
  [W("/ab/a") EXCEPT !.exc = TRUE, !.tag = "t1"], [W("ab/ba") EXCEPT !.exc = TRUE, !.tag = "t2"],
  [W("ab") EXCEPT !.dom = {"ba.com"}], [W("/ab/a") EXCEPT !.ndom = {"ba.com"}],
  [W("bab") EXCEPT !.dom = {"ba.com", "abb.com"}], [W("ab") EXCEPT !.party = "3p"],
  [W("/ab/a") EXCEPT !.pos = {"script"}], [W("ab") EXCEPT !.neg = {"script"}],
  [W("ab/ba/bab") EXCEPT !.badfilter = TRUE], [W("/ab/a") EXCEPT !.badfilter = TRUE],
  [W("/ab/a") EXCEPT !.important = TRUE, !.badfilter = TRUE],
  [W("ab/ba") EXCEPT !.exc = TRUE, !.badfilter = TRUE],
  [W("ab") EXCEPT !.left = "dpipe", !.body = B("ab.ba^"), !.mkind = "redirect", !.mval = "r1"],
  \* ... and its badfilter twin: a cancelled redirect rule neither blocks nor redirects
  [W("ab") EXCEPT !.left = "dpipe", !.body = B("ab.ba^"), !.mkind = "redirect", !.mval = "r1", !.badfilter = TRUE],
  [W("/bab") EXCEPT !.mkind = "redirect-rule", !.mval = "r2"],
  [W("ab") EXCEPT !.mkind = "removeparam", !.mval = "ab"],
  [W("ab.ba^") EXCEPT !.left = "dpipe", !.mkind = "csp", !.mval = "d1"],
  \* a rule that differs from another one only in the case of a case-sensitive payload is a different rule
  [W("ab") EXCEPT !.mkind = "removeparam", !.mval = "AB"],
  \* the same rule under a second tag is a different rule
  [W("abb") EXCEPT !.tag = "t1"],
  \* a pattern-less catch-all next to a token-less patterned rule with the same option mask (one fuse group)
  [W("*") EXCEPT !.pos = {"image"}], [W("/a*b") EXCEPT !.pos = {"image"}],
  \* a hostname anchor followed by '*': the rest of the pattern is NOT pinned on its left, so its first token may
  \* be the tail of a longer URL token and must not be used as the bucket key
  [W("ab.ba*abb/a") EXCEPT !.left = "dpipe"]
>>
ReqsC01 == <<
  MkReq("https", "ab.ba", "/babb/a", "script", "x.com"),
  MkReq("https", "ab.ba", "/ab/ba/bab", "script", "ab.ba"),
  MkReq("https", "ab.ba", "/bab/ba/bab", "script", "ab.ba"),
  MkReq("https", "x.com", "/bab/ba/bab", "image", "ba.com"),
  MkReq("https", "x.com", "/ab/ba/babb", "script", ""),
  MkReq("https", "x.com", "/ab/a", "script", "x.com"),
  MkReq("https", "x.com", "/bab/", "script", "s.ba.com"),
  MkReq("https", "x.com", "/abab/x", "image", "abb.com"),
  MkReq("http", "bab.ab.ba", "/bab", "script", "x.com"),
  MkReq("https", "x.com", "/ba/abb/ab", "script", "ba.com"),
  MkReq("https", "x.com", "/bba/abb/ab?ab=1", "xhr", "ba.com"),
  MkReq("https", "x.com", "/abb/x/ba", "image", "x.com"),
  MkReq("https", "x.com", "/babb-ba", "other", ""),
  MkReq("https", "ab.ba", "/", "document", "ab.ba"),
  MkReq("https", "s.ab.ba", "/x?ab=1&ba=2", "sub_frame", "x.com"),
  MkReq("wss", "ab.ba", "/ab/a", "websocket", "x.com"),
  MkReq("https", "xab.ba", "/ab/ba", "script", "x.com"),
  MkReq("https", "x.com", "/x/ab.ba/ab", "script", "x.com"),
  MkReq("ftp", "ab.ba", "/ab/ba/bab", "script", "ab.ba"),
  MkReq("https", "x.com", "/ab/abab", "script", "x.com"),
  MkReq("https", "x.com", "/ab?AB=1&ab=2", "xhr", "x.com")
>>

--------------------------------------------------------------------------
\* universe c01d: rules without usable tokens are dispatched into one bucket per $domain= value
\* and shared between buckets; near-twin rules that differ only in tag / domain polarity
D1(s) == [R0 EXCEPT !.body = B(s)]
PoolC01d == <<
  [D1("a") EXCEPT !.pos = {"script"}, !.dom = {"ba.com", "abb.com"}],
  [D1("a") EXCEPT !.pos = {"image"}, !.dom = {"ba.com"}],
  [D1("a") EXCEPT !.pos = {"font"}, !.dom = {"ba.com"}],
  [D1("b") EXCEPT !.dom = {"abb.com", "x.com"}],
  [D1("a") EXCEPT !.exc = TRUE, !.dom = {"abb.com", "ba.com"}, !.pos = {"script"}],
  [D1("a") EXCEPT !.dom = {"ba.com"}, !.ndom = {"s.ba.com"}],
  [D1("/ab/a") EXCEPT !.tag = "t1"], [D1("/ab/a") EXCEPT !.tag = "t2"],
  [D1("ab") EXCEPT !.dom = {"ba.com"}], [D1("ab") EXCEPT !.ndom = {"ba.com"}],
  [D1("/ab/a") EXCEPT !.exc = TRUE, !.tag = "t1"], [D1("/ab/a") EXCEPT !.exc = TRUE, !.tag = "t2"],
  [D1("ab") EXCEPT !.pos = {"image"}], [D1("ab") EXCEPT !.neg = {"image"}]
>>
ReqsC01d == SetToSeqD(
  { MkReq("https", "x.com", "/ab/a", al, src) : al \in {"script", "image", "font"},
      src \in {"ba.com", "s.ba.com", "abb.com", "x.com", "b.com", ""} })

--------------------------------------------------------------------------
\* universe c07: every rule category a tag combines with x {untagged, t1, t2}
TG(r, t) == [r EXCEPT !.tag = t]
PoolC07 == SetToSeqD(
  { TG(x, t) : t \in {"", "t1", "t2"},
      x \in { W("/ab/a"), [W("/ab/a") EXCEPT !.exc = TRUE], [W("/ab/a") EXCEPT !.important = TRUE],
              [W("ab.ba^") EXCEPT !.left = "dpipe", !.mkind = "csp", !.mval = "d1"],
              [W("ab.ba^") EXCEPT !.left = "dpipe", !.mkind = "csp", !.mval = "d1", !.exc = TRUE] } }
  \cup { [W("/ab-") EXCEPT !.tag = "t1"], [W("/ab_") EXCEPT !.tag = "t2"], W("/ab.") })
ReqsC07 == <<
  MkReq("https", "ab.ba", "/ab/a", "script", "x.com"),
  MkReq("https", "ab.ba", "/", "document", "x.com"),
  MkReq("https", "ab.ba", "/ab-", "script", "x.com"),
  MkReq("https", "ab.ba", "/ab_", "script", "x.com"),
  MkReq("https", "ab.ba", "/ab.", "script", "x.com")
>>

--------------------------------------------------------------------------
\* universe c04b: badfilter twins and near-twins.  Base rules y; for each, z = y$badfilter and
\* variants of z that differ from y in exactly one matching option or in the pattern.
BaseC04 == {
  W("/ab/a"), [W("/ab/a") EXCEPT !.pos = {"script"}], [W("/ab/a") EXCEPT !.party = "3p"],
  [W("/ab/a") EXCEPT !.dom = {"ba.com"}], [W("/ab/a") EXCEPT !.ndom = {"ba.com"}],
  [W("/ab/a") EXCEPT !.dom = {"ba.com"}, !.ndom = {"s.ba.com"}],
  [W("/ab/a") EXCEPT !.important = TRUE], [W("/ab/a") EXCEPT !.exc = TRUE],
  [W("ab.ba^") EXCEPT !.left = "dpipe"], [W("ab.ba/ab") EXCEPT !.left = "dpipe"],
  [W("ab/") EXCEPT !.mkind = "redirect", !.mval = "r1"], [W("/ab/a") EXCEPT !.mkind = "redirect", !.mval = "r2"],
  [W("/ab/a") EXCEPT !.tag = "t1"] }
BadOf(y) == [y EXCEPT !.badfilter = TRUE]
VariantsC04 ==
  { BadOf(y) : y \in BaseC04 }
  \cup { BadOf([W("/ab/a") EXCEPT !.pos = {"image"}]), BadOf([W("/ab/a") EXCEPT !.party = "1p"]),
         BadOf([W("/ab/a") EXCEPT !.dom = {"abb.com"}]), BadOf(W("/ab")),
         BadOf([W("/ab/a") EXCEPT !.dom = {"ba.com"}, !.ndom = {"x.ba.com"}]),
         BadOf([W("/ab/a") EXCEPT !.dom = {"ba.com", "abb.com"}]), BadOf(W("ab/")),
         BadOf([W("/ab/a") EXCEPT !.left = "pipe"]), BadOf([W("/ab/a") EXCEPT !.right = TRUE]),
         BadOf([W("ab.ba") EXCEPT !.left = "dpipe"]),
         BadOf([W("/ab/a") EXCEPT !.mkind = "redirect-rule", !.mval = "r1"]),
         BadOf([W("b/") EXCEPT !.mkind = "redirect", !.mval = "r1a"]),
         BadOf([W("/ab/a") EXCEPT !.tag = "t2"]), BadOf([W("/ab/a") EXCEPT !.neg = {"script"}]) }
PoolC04b == SetToSeqD(BaseC04) \o SetToSeqD(VariantsC04)
ReqsC04b == <<
  MkReq("https", "ab.ba", "/ab/a", "script", "ba.com"),
  MkReq("https", "ab.ba", "/ab/a", "image", "x.com"),
  MkReq("https", "x.com", "/ab/a", "script", "x.com"),
  MkReq("https", "x.com", "/ab/a", "script", "s.ba.com"),
  MkReq("https", "ab.ba", "/ab", "script", "abb.com")
>>

--------------------------------------------------------------------------
\* universe c04m: MANY badfilter rules in one list.  Seven base rules with their own tokens (one of them an
\* exception, one important) followed by every subset of their seven badfilter twins: a rule is cancelled
\* exactly when its twin is in the subset, however many other twins there are and in whatever order their
\* identifiers happen to sort.
BaseC04m == << W("/ab/a"), W("/ba/b"), W("/aab"), W("/bba"), [W("/abab") EXCEPT !.important = TRUE], W("/baba"),
               [W("/bba") EXCEPT !.exc = TRUE] >>
PoolC04m == [i \in DOMAIN BaseC04m |-> BadOf(BaseC04m[i])]
ReqsC04m == << MkReq("https", "x.com", "/ab/a", "script", "x.com"), MkReq("https", "x.com", "/ba/b", "script", "x.com"),
               MkReq("https", "x.com", "/aab", "script", "x.com"), MkReq("https", "x.com", "/bba", "script", "x.com"),
               MkReq("https", "x.com", "/abab", "script", "x.com"), MkReq("https", "x.com", "/baba", "script", "x.com") >>

--------------------------------------------------------------------------
\* universe c05: same-bucket near-twins that differ in exactly one attribute (what the optimizer
\* must not fuse, or must fuse without changing a verdict)
PoolC05 == <<
  W("/ab-"), W("/ab_"), W("/ab."), W("-ab-"),
  [W("/ab-") EXCEPT !.exc = TRUE], [W("/ab_") EXCEPT !.exc = TRUE, !.tag = "t1"], [W("/ab.") EXCEPT !.exc = TRUE],
  [W("/ab-") EXCEPT !.important = TRUE], [W("/ab_") EXCEPT !.important = TRUE, !.tag = "t1"],
  [W("/ab_") EXCEPT !.tag = "t1"], [W("/ab.") EXCEPT !.tag = "t2"],
  W("/ab^"), W("/ab*ba"), [W("/ab-") EXCEPT !.right = TRUE], [W("/ab") EXCEPT !.right = TRUE], [W("https://ab.ba/ab-") EXCEPT !.left = "pipe"],
  [W("/ab_") EXCEPT !.pos = {"image"}], [W("/ab.") EXCEPT !.party = "3p"],
  [W("/ab-") EXCEPT !.dom = {"ba.com"}], [W("ab.ba/ab_") EXCEPT !.left = "dpipe"],
  [W("/ab-") EXCEPT !.mkind = "redirect", !.mval = "r1"], [W("/ab_") EXCEPT !.mkind = "redirect-rule", !.mval = "r2"],
  [W("/ab_") EXCEPT !.mkind = "removeparam", !.mval = "ab"], [W("/ab-") EXCEPT !.mkind = "removeparam", !.mval = "ba"],
  \* csp rules that are neither hostname anchored nor restricted to sites: never fused (each keeps its directive)
  [W("/ab_") EXCEPT !.mkind = "csp", !.mval = "d1"], [W("/ab-") EXCEPT !.mkind = "csp", !.mval = "d2"],
  \* pattern-less catch-all rules next to token-less patterned rules with the same option mask (all of them
  \* live in the fallback bucket; a fused group with a match-all member must still match everything)
  \* wildcard rules pinned on the right, sharing bucket and mask (fused into one regex set: every member keeps its
  \* anchor), and one pattern text under two different anchorings in two categories
  [W("/ab*-") EXCEPT !.right = TRUE], [W("/ab*_") EXCEPT !.right = TRUE], [W("/ab*ba") EXCEPT !.exc = TRUE, !.right = TRUE],
  [W("*") EXCEPT !.pos = {"image"}], [W("/a*b") EXCEPT !.pos = {"image"}], [W("a*-") EXCEPT !.pos = {"image"}],
  [W("*") EXCEPT !.exc = TRUE, !.pos = {"font"}], [W("/a*b") EXCEPT !.exc = TRUE, !.pos = {"font"}], [W("*") EXCEPT !.pos = {"font"}]
>>
ReqsC05 == <<
  MkReq("https", "ab.ba", "/ab-", "script", "x.com"),
  MkReq("https", "ab.ba", "/ab_", "script", "x.com"),
  MkReq("https", "ab.ba", "/ab.", "image", "ab.ba"),
  MkReq("https", "ab.ba", "/x-ab-", "script", "ba.com"),
  MkReq("https", "ab.ba", "/ab/ba", "script", "x.com"),
  MkReq("https", "ab.ba", "/ab-x/ba?ab=1&ba=2", "xhr", "x.com"),
  MkReq("https", "x.com", "/ab_", "image", "x.com"),
  MkReq("https", "x.com", "/x-", "image", "ba.com"),
  MkReq("https", "x.com", "/x-", "font", "ba.com"),
  MkReq("https", "x.com", "/a-b", "font", "x.com"),
  MkReq("https", "ab.ba", "/ab_x-y", "script", "x.com"),
  MkReq("https", "ab.ba", "/ab_", "document", "ab.ba"),
  MkReq("https", "ab.ba", "/ab-", "document", "ab.ba")
>>

--------------------------------------------------------------------------
\* universe c08: one rule per rule shape (every option bit, every modifier, tag, domain lists,
\* hostname anchors, regex-ness); each exported case is also executed on an engine reloaded
\* from the serialized image of the first (C08) -- the wire format must preserve every field
PoolC08 == <<
  W("/ab-"), [W("/ab^") EXCEPT !.right = TRUE], [W("https://ab.ba/ab") EXCEPT !.left = "pipe"],
  [W("ab.ba/ab*a") EXCEPT !.left = "dpipe"], [W("ab.ba^") EXCEPT !.left = "dpipe"], [W("ba*/ab") EXCEPT !.left = "dpipe"],
  [W("/ab-") EXCEPT !.exc = TRUE], [W("/ab_") EXCEPT !.important = TRUE],
  [W("/ab-") EXCEPT !.pos = {"image"}], [W("/ab-") EXCEPT !.neg = {"image", "script"}], [W("/ab_") EXCEPT !.pos = {"document", "font"}],
  [W("/ab-") EXCEPT !.party = "3p"], [W("/ab_") EXCEPT !.party = "1p"],
  [W("/ab-") EXCEPT !.dom = {"ba.com", "abb.com"}], [W("/ab_") EXCEPT !.ndom = {"ba.com"}],
  [W("/ab.") EXCEPT !.dom = {"ba.com"}, !.ndom = {"s.ba.com"}],
  [W("/ab-") EXCEPT !.tag = "t1"], [W("/ab-") EXCEPT !.tag = "t2"], [W("/ab_") EXCEPT !.exc = TRUE, !.tag = "t2"],
  [W("/ab_") EXCEPT !.tag = "t1"],      \* fusable with '/ab-$tag=t1': the tagged list is rebuilt (and fused or not) on load [W("/ab.") EXCEPT !.important = TRUE, !.tag = "t1"],
  [W("ab.ba^") EXCEPT !.left = "dpipe", !.mkind = "redirect", !.mval = "r1", !.prio = "10"],
  [W("/ab-") EXCEPT !.mkind = "redirect-rule", !.mval = "r2"],
  [W("ab.ba^") EXCEPT !.left = "dpipe", !.exc = TRUE, !.mkind = "redirect", !.mval = "r1"],
  [W("ab.ba^") EXCEPT !.left = "dpipe", !.mkind = "csp", !.mval = "d1"],
  [W("ab.ba^") EXCEPT !.left = "dpipe", !.mkind = "csp", !.mval = "d2", !.tag = "t1"],
  [W("ab.ba^") EXCEPT !.left = "dpipe", !.mkind = "csp", !.mval = "", !.exc = TRUE, !.dom = {"ba.com"}],
  [W("ab.ba^") EXCEPT !.left = "dpipe", !.mkind = "removeparam", !.mval = "ab"],
  [W("http://") EXCEPT !.left = "pipe"], [W("/ab-") EXCEPT !.badfilter = TRUE],
  [W("a") EXCEPT !.pos = {"script"}, !.dom = {"ba.com", "abb.com"}],
  \* equal-priority redirect rules naming different resources, one of them token-less with two domains (shared
  \* between two buckets, stored after the sorted part of an optimised bucket): which one wins is decided by
  \* the order inside the bucket, which a reload has to preserve.  Both name assignments, since the order
  \* depends on the hash of the rule text.
  [W("*") EXCEPT !.pos = {"script"}, !.dom = {"ba.com", "abb.com"}, !.mkind = "redirect", !.mval = "r1"],
  [W("*") EXCEPT !.pos = {"script"}, !.dom = {"ba.com"}, !.mkind = "redirect", !.mval = "r2"],
  [W("*") EXCEPT !.pos = {"script"}, !.dom = {"ba.com", "abb.com"}, !.mkind = "redirect", !.mval = "r2"],
  [W("*") EXCEPT !.pos = {"script"}, !.dom = {"ba.com"}, !.mkind = "redirect", !.mval = "r1"]
>>
ReqsC08 == <<
  MkReq("https", "ab.ba", "/ab-", "script", "x.com"),
  MkReq("https", "ab.ba", "/ab_", "image", "ab.ba"),
  MkReq("https", "ab.ba", "/ab.", "script", "ba.com"),
  MkReq("https", "ab.ba", "/ab", "font", "s.ba.com"),
  MkReq("http", "x.com", "/ab-?ab=1&ba=2", "xhr", "abb.com"),
  MkReq("https", "ab.ba", "/?ab=1", "document", "ba.com"),
  MkReq("https", "s.ab.ba", "/ab/ab-a", "sub_frame", "x.com"),
  MkReq("https", "xba.com", "/x/ab", "script", ""),
  MkReq("https", "ab.ba", "/ab.", "script", "s.ba.com")
>>

--------------------------------------------------------------------------
\* universe c13: redirects
RD(kind, res, pr) == [R0 EXCEPT !.left = "dpipe", !.body = B("ab.ba^"), !.mkind = kind, !.mval = res, !.prio = pr]
PoolC13 == SetToSeqD(
  { RD(k, r, p) : k \in {"redirect", "redirect-rule"}, r \in {"r1", "r2", "al1"}, p \in {"none", "1", "-1"} }
  \cup { RD("redirect", r, p) : r \in {"r1"}, p \in {"10", "0", "x"} }
  \* the ends of the i32 range, just outside it, and other spellings Rust's integer parser accepts or refuses
  \cup { RD(k, "r1", "-2147483648") : k \in {"redirect", "redirect-rule"} }
  \cup { RD("redirect-rule", "r2", "2147483647"), RD("redirect-rule", "r2", "-2147483647"), RD("redirect", "r1", "2147483648"),
         RD("redirect-rule", "r1", "-2147483649"), RD("redirect-rule", "r1", "+1"), RD("redirect-rule", "r2", "01"),
         RD("redirect", "r1", ""), RD("redirect-rule", "r2", "-0") }
  \cup { RD("redirect", r, "none") : r \in {"missing", "tpl", "perm", "fnjs"} }
  \cup { [RD(k, r, p) EXCEPT !.exc = TRUE] : k \in {"redirect", "redirect-rule"}, r \in {"r1", "r2"}, p \in {"none", "1"} }
  \* names in a prefix relation (r1 / r1.js), an exception with a priority suffix next to one without,
  \* directives naming 'X' while only 'X.js' is loaded, a permissioned non-script resource
  \cup { RD("redirect", "r1.js", "none"), [RD("redirect-rule", "r1.js", "none") EXCEPT !.exc = TRUE],
         [RD("redirect-rule", "r1", "10") EXCEPT !.exc = TRUE], RD("redirect", "nj", "10"), RD("redirect-rule", "njalias", "none"),
         RD("redirect", "permcss", "1"), [RD("redirect-rule", "nj.js", "none") EXCEPT !.exc = TRUE],
         RD("redirect", "image", "none"), RD("redirect", "zqb", "none"), RD("redirect", "q1", "none") }
  \cup { [R0 EXCEPT !.body = B("/ab")], [R0 EXCEPT !.body = B("/ab"), !.exc = TRUE],
         [R0 EXCEPT !.body = B("/ab"), !.important = TRUE],
         [RD("redirect", "r2", "1") EXCEPT !.important = TRUE],
         [RD("redirect", "r1", "none") EXCEPT !.pos = {"image"}],
         [RD("redirect", "r1", "none") EXCEPT !.badfilter = TRUE] })
ReqsC13 == <<
  MkReq("https", "ab.ba", "/ab", "script", "x.com"),
  MkReq("https", "ab.ba", "/x", "image", "ab.ba"),
  MkReq("https", "x.com", "/ab", "script", "x.com")
>>
\* universe c13x: redirect EXCEPTIONS that are not hostname anchored, carry no domain and share one option mask and
\* one bucket (what the optimiser may fuse): each must cancel exactly the resource it names.  Every list = the
\* three base rules (two directives of different priority + a blocking rule) followed by <= K exceptions.
BaseC13x == << [W("/ab") EXCEPT !.mkind = "redirect-rule", !.mval = "r1"],
               [W("/ab") EXCEPT !.mkind = "redirect-rule", !.mval = "r2", !.prio = "1"], W("/ab") >>
XR(p, kind, res) == [W(p) EXCEPT !.exc = TRUE, !.mkind = kind, !.mval = res]
PoolC13x == << XR("-x", "redirect-rule", "r1"), XR("-y", "redirect-rule", "r2"), XR("-x", "redirect-rule", "r2"), XR("-y", "redirect-rule", "r1"),
               XR("-x", "redirect", "r1"), XR("-y", "redirect", "r2"), XR("-z", "redirect-rule", "r1"), XR("-z", "redirect-rule", "r2"),
               \* directives for one resource with different priorities, same mask and bucket (a fused rule would keep one priority)
               [W("-x") EXCEPT !.mkind = "redirect-rule", !.mval = "r1", !.prio = "10"], [W("-y") EXCEPT !.mkind = "redirect-rule", !.mval = "r1"],
               [W("-y") EXCEPT !.mkind = "redirect-rule", !.mval = "r1", !.prio = "10"], [W("-x") EXCEPT !.mkind = "redirect-rule", !.mval = "r1"] >>
ReqsC13x == << MkReq("https", "ab.ba", "/ab-x", "script", "x.com"), MkReq("https", "ab.ba", "/ab-y", "script", "x.com"),
               MkReq("https", "ab.ba", "/ab-x-y", "script", "x.com"), MkReq("https", "ab.ba", "/ab", "script", "x.com"),
               MkReq("https", "ab.ba", "/ab-z-x", "image", "ab.ba") >>
\* universe rand: K random lists of 3..9 rules drawn (TLC Randomization) from a product space of patterns x anchors
\* x every option, restricted to what the parser accepts and the properties cover.  Compositions no pool has.
RandBodies == {"/ab", "ab", "/ab*ba", "*", "/bab", "-x", "/ab-", "/ab_", "ab.ba^"}
\* (TLC evaluates constant definitions at start-up: the space is only built for the universe that uses it)
IsRand == U \in {"rand", "randr"}      \* "randr": the same random lists, each also executed on an engine reloaded from its image (C08)
RandSpace == IF ~IsRand THEN {} ELSE
  { r \in { [R0 EXCEPT !.body = B(b), !.left = l, !.exc = e, !.pos = p, !.neg = n, !.party = pa, !.dom = d[1], !.ndom = d[2],
                      !.important = im, !.tag = tg, !.mkind = m[1], !.mval = m[2]] :
              b \in RandBodies, l \in {"none", "dpipe"}, e \in BOOLEAN,
              p \in {{}, {"script"}, {"image"}, {"document"}}, n \in {{}, {"script"}}, pa \in {"any", "3p", "1p"},
              d \in { <<{}, {}>>, <<{"ba.com"}, {}>>, <<{"ba.com", "abb.com"}, {}>>, <<{}, {"s.ba.com"}>>, <<{"ba.com"}, {"s.ba.com"}>> },
              im \in BOOLEAN, tg \in {"", "t1"},
              m \in { <<"none", "">>, <<"redirect", "r1">>, <<"redirect-rule", "r2">>, <<"csp", "d1">>, <<"removeparam", "ab">> } } :
      /\ (r.left = "dpipe") = (r.body = B("ab.ba^"))
      /\ ~(r.pos # {} /\ r.neg # {})
      /\ (r.mkind = "csp" => r.pos = {} /\ r.neg = {})
      /\ (r.mkind = "removeparam" => ~r.exc)
      /\ (r.tag # "" => r.mkind \in {"none", "csp"})                  \* tag + redirect / removeparam: unsupported
      /\ (r.mkind \in {"redirect", "redirect-rule"} => ~r.important)  \* not adjudicated: left out
      /\ ~(r.body = B("*") /\ r.mkind = "none" /\ r.pos = {} /\ r.dom = {} /\ ~r.exc) }   \* a rule blocking everything hides the rest
ReqsRand == <<
  MkReq("https", "ab.ba", "/ab/ba/bab", "script", "ab.ba"), MkReq("https", "x.com", "/ab-x", "script", "ba.com"),
  MkReq("https", "x.com", "/ab_", "image", "s.ba.com"), MkReq("https", "ab.ba", "/", "document", "ab.ba"),
  MkReq("https", "s.ab.ba", "/x?ab=1&ba=2", "sub_frame", "abb.com"), MkReq("https", "x.com", "/bab", "xhr", "x.com"),
  MkReq("http", "ab.ba", "/ab?ab=1", "xhr", "ba.com"), MkReq("https", "x.com", "/x-", "image", ""),
  MkReq("https", "x.com", "/ab.ba/ab", "script", "x.com"), MkReq("https", "xab.ba", "/ab-/ba", "other", "ba.com") >>
\* resources in the order they are added; the last two collide with earlier names/aliases and
\* must be rejected (their content differs, so serving them would be visible)
ResSeqC13 == <<
  [name |-> "r1", aliases |-> {"al1"}, redirectable |-> TRUE, perm |-> 0, kind |-> "text/plain", content |-> "r1"],
  [name |-> "r2", aliases |-> {}, redirectable |-> TRUE, perm |-> 0, kind |-> "application/javascript", content |-> "r2"],
  [name |-> "tpl", aliases |-> {}, redirectable |-> FALSE, perm |-> 0, kind |-> "template", content |-> "tpl"],
  [name |-> "fnjs", aliases |-> {}, redirectable |-> FALSE, perm |-> 0, kind |-> "fn/javascript", content |-> "fnjs"],
  [name |-> "perm", aliases |-> {}, redirectable |-> TRUE, perm |-> 1, kind |-> "text/plain", content |-> "perm"],
  [name |-> "r1.js", aliases |-> {}, redirectable |-> TRUE, perm |-> 0, kind |-> "application/javascript", content |-> "r1.js"],
  [name |-> "nj.js", aliases |-> {"njalias.js"}, redirectable |-> TRUE, perm |-> 0, kind |-> "application/javascript", content |-> "nj.js"],
  [name |-> "permcss", aliases |-> {}, redirectable |-> TRUE, perm |-> 2, kind |-> "text/css", content |-> "permcss"],
  [name |-> "al1", aliases |-> {}, redirectable |-> TRUE, perm |-> 0, kind |-> "text/plain", content |-> "late-al1"],
  [name |-> "zz", aliases |-> {"r2"}, redirectable |-> TRUE, perm |-> 0, kind |-> "text/plain", content |-> "late-zz"],
  \* an ALIAS that re-uses an existing alias: refused, and the existing alias keeps pointing at r1
  [name |-> "yy", aliases |-> {"al1"}, redirectable |-> TRUE, perm |-> 0, kind |-> "text/plain", content |-> "late-yy"],
  \* refused because ONE of its aliases is taken; its other alias must not stay registered, even when a resource
  \* with the same name is accepted afterwards (two spellings: which alias is looked at first is an implementation matter)
  [name |-> "q1", aliases |-> {"image", "al1"}, redirectable |-> TRUE, perm |-> 0, kind |-> "text/plain", content |-> "late-q1"],
  [name |-> "q1", aliases |-> {}, redirectable |-> TRUE, perm |-> 0, kind |-> "text/plain", content |-> "q1"],
  [name |-> "q2", aliases |-> {"zqb", "al1"}, redirectable |-> TRUE, perm |-> 0, kind |-> "text/plain", content |-> "late-q2"],
  [name |-> "q2", aliases |-> {}, redirectable |-> TRUE, perm |-> 0, kind |-> "text/plain", content |-> "q2"]
>>
ResC13 == EffectiveStore(ResSeqC13)

--------------------------------------------------------------------------
\* universe c14: removeparam
RP(name) == [R0 EXCEPT !.left = "dpipe", !.body = B("ab.ba^"), !.mkind = "removeparam", !.mval = name]
PoolC14 == <<
  RP("a"), RP("b"), RP("ab"), RP("A"), [R0 EXCEPT !.body = B("*"), !.mkind = "removeparam", !.mval = "a"], [RP("a") EXCEPT !.pos = {"document"}], [RP("a") EXCEPT !.pos = {"image"}], [RP("b") EXCEPT !.neg = {"xmlhttprequest"}],
  [RP("a") EXCEPT !.important = TRUE], [R0 EXCEPT !.body = B("/p"), !.important = TRUE],
  [R0 EXCEPT !.body = B("/p")], [R0 EXCEPT !.body = B("a=1"), !.exc = TRUE], [RP("A") EXCEPT !.dom = {"x.com"}]
>>
QueryShapes == {"", "?", "?a=1", "?a=", "?a", "?=1", "?a=1&b=2", "?b=2&a=1", "?a=1&a=3", "?a=x=y", "?a=1&&b=2",
                "?&a=1", "?a=1&", "?b&a=1", "?ab=1&a=2", "?A=1", "?a=1&b=", "?c=3", "?a=%20", "?b=2&c=3&a=1",
                \* non-ASCII keys and values, an encoded '&' inside a value, ';' is not a separator
                "?a=é&b=2", "?é=1&a=1", "?a=1%26b=2&b=3", "?a=1;b=2", "?A=1&a=2"}
FragShapes == {"", "#f", "#f?a=1", "#", "#a=1&b=2"}
\* the URL text may be spelled in a non-normalised way (upper-case scheme); the rewrite must keep it
MkReqU(schemeText, scheme, host, path, alias, src) ==
  LET r == MkReq(scheme, host, path, alias, src) IN
  [r EXCEPT !.url = Chars(schemeText) \o SubSeq(r.url, Len(Chars(scheme)) + 1, Len(r.url))]
ReqsC14 == SetToSeqD(
  { MkReq("https", "ab.ba", "/p" \o qs \o fr, al, "x.com") :
      qs \in QueryShapes, fr \in FragShapes, al \in {"xhr", "image"} })
  \o << MkReqU("HTTPS", "https", "ab.ba", "/p?a=1&b=2", "document", ""),
        MkReqU("HTTPS", "https", "ab.ba", "/P?a=1&B=2#F", "xhr", "x.com"),
        MkReq("https", "ab.ba", "/p?b=2&a=1", "document", "") >>

--------------------------------------------------------------------------
\* universe c15: csp
CS(d) == [R0 EXCEPT !.left = "dpipe", !.body = B("ab.ba^"), !.mkind = "csp", !.mval = d]
PoolC15 == <<
  CS("d1"), CS("d2"), CS("d3"), CS("d1"), [CS("d1") EXCEPT !.exc = TRUE], [CS("d2") EXCEPT !.exc = TRUE],
  [CS("") EXCEPT !.exc = TRUE], [CS("d2") EXCEPT !.tag = "t1"], [CS("d3") EXCEPT !.exc = TRUE, !.tag = "t1"],
  [CS("d3") EXCEPT !.dom = {"x.com"}], [CS("d1") EXCEPT !.body = B("ba^")],
  [CS("d2") EXCEPT !.party = "3p"], [CS("") EXCEPT !.exc = TRUE, !.dom = {"ba.com"}],
  [R0 EXCEPT !.left = "dpipe", !.body = B("ab.ba^")], [CS("d1") EXCEPT !.badfilter = TRUE],
  [CS("d1") EXCEPT !.important = TRUE],
  \* directives that contain '=' (hash / nonce sources) and agree up to the first '='
  CS("s 'h-a='"), CS("s 'h-b='"), [CS("s 'h-b='") EXCEPT !.exc = TRUE],
  \* pattern-less exceptions filed under the source domain (found before the rule they cancel)
  [R0 EXCEPT !.body = B("*"), !.mkind = "csp", !.mval = "d1", !.exc = TRUE, !.dom = {"x.com"}],
  [R0 EXCEPT !.body = B("*"), !.mkind = "csp", !.mval = "d2", !.exc = TRUE, !.dom = {"x.com"}]
>>
ReqsC15 == SetToSeqD(
  { MkReq(sc, "ab.ba", "/", al, src) : sc \in {"https", "ftp"},
      al \in {"document", "main_frame", "sub_frame", "subdocument", "script", "image", "other", "websocket", "xhr"},
      src \in {"ab.ba", "x.com", "ba.com", ""} })

--------------------------------------------------------------------------
Pool == CASE U = "c01" -> PoolC01 [] U = "c01d" -> PoolC01d [] U = "c07" -> PoolC07 [] U = "c04b" -> PoolC04b [] U = "c04m" -> PoolC04m [] U = "c05" -> PoolC05 [] U = "c08" -> PoolC08 [] U = "c13" -> PoolC13 [] U = "c13x" -> PoolC13x [] U = "c14" -> PoolC14
          [] U = "c15" -> PoolC15 [] OTHER -> <<>>
Reqs == CASE U = "c03" -> ReqsC03 [] U = "c01" -> ReqsC01 [] U = "c01d" -> ReqsC01d [] U = "c07" -> ReqsC07 [] U = "c04b" -> ReqsC04b [] U = "c04m" -> ReqsC04m [] U = "c05" -> ReqsC05 [] U = "c08" -> ReqsC08 [] U = "c13" -> ReqsC13 [] U = "c13x" -> ReqsC13x [] IsRand -> ReqsRand
          [] U = "c14" -> ReqsC14 [] U = "c15" -> ReqsC15
Res == IF U \in {"rand", "randr", "c13", "c13x", "c01", "c04b", "c05", "c08"} THEN ResC13 ELSE {}
Tags == IF U \in {"rand", "randr", "c01", "c01d", "c07", "c15", "c04b", "c05", "c08"} THEN {"t1", "t2"} ELSE {}

\* increasing index sequences of length <= K over 1..n
RECURSIVE IncSeqs(_, _, _)
IncSeqs(lo, n, k) ==
  IF k = 0 THEN {<<>>}
  ELSE {<<>>} \cup UNION { {<<i>> \o s : s \in IncSeqs(i + 1, n, k - 1)} : i \in lo..n }

\* TLC computes initial states sequentially, so the universe is split into partitions:
\* one "seed" state per partition, whose successors (the cases) are generated and
\* checked by the workers in parallel.
PartsC03 == SetToSeqD({ <<s, pa>> : s \in ShapesC03, pa \in {"any", "3p", "1p"} })
NParts == IF U = "c03" THEN Len(PartsC03) ELSE IF IsRand THEN K ELSE Len(Pool) + 1

Base == IF U = "c13x" THEN BaseC13x ELSE IF U = "c04m" THEN BaseC04m ELSE <<>>
ListsOf(p) ==
  IF U = "c03"
  THEN { << [PartsC03[p][1] EXCEPT !.pos = PosOf(S), !.neg = NegOf(S), !.party = PartsC03[p][2],
                                   !.dom = d[1], !.ndom = d[2]] >> : S \in AtomSets, d \in DomVariants }
  ELSE IF IsRand THEN {SetToSeqD(RandomSubset(RandomElement(3..9), RandSpace))}
  ELSE IF p = Len(Pool) + 1 THEN {Base}
  ELSE {Base \o [j \in 1..Len(s) |-> Pool[s[j]]] : s \in {<<p>> \o t : t \in IncSeqs(p + 1, Len(Pool), K - 1)}}

TagsUsed(l) == {l[i].tag : i \in DOMAIN l} \ {""}

Init == stage = "seed" /\ part \in 1..NParts /\ L = <<>> /\ T = {}
Next == /\ stage = "seed" /\ stage' = "case" /\ part' = part
        /\ L' \in ListsOf(part)
        /\ T' \in SUBSET (Tags \cap TagsUsed(L'))     \* tags no rule carries change nothing

--------------------------------------------------------------------------
ResJson == [x \in Res |-> x]

\* Adjudication: the clause "requests with unsupported schemes are never matched" is decided at
\* engine level (Blocker::check / get_csp_directives gate on is_supported); the per-rule matcher is
\* a building block that is only ever handed supported requests, so it is left unspecified there.
MatcherHit(r, q) == IF Supported(q) THEN Hit(r, q) ELSE {TRUE, FALSE}

\* Everything about one case is computed once, from one table of per-(request, rule) facts:
\*   ideal = three-valued Ideal hit, impl = the code-shaped matcher model's hit
Facts == [q \in DOMAIN Reqs |-> [i \in DOMAIN L |->
            [ideal |-> Hit(L[i], Reqs[q]), impl |-> ImplHitM(L[i], Reqs[q])]]]

\* engine level: gated on is_supported.  An http(s)-folded rule is usually indexed under the
\* scheme token, which a ws(s) URL never has, so the matcher deviation wsMatchesHttpOnlyRule is
\* masked unless the rule is reachable through another token (e.g. its $domain): both outcomes
\* belong to the model.
EngineHits(f, i, q) ==
  IF ~Supported(Reqs[q]) THEN {FALSE}
  ELSE IF FoldKind(L[i]) \in {"http://", "https://"} /\ Reqs[q].scheme \in {"ws", "wss"}
       THEN {FALSE, f[q][i].impl}
  ELSE {f[q][i].impl}

CaseRecord(f) ==
  LET iv == [q \in DOMAIN Reqs |-> IdealVerdictsH(L, T, Res, Reqs[q], [i \in DOMAIN L |-> f[q][i].ideal])]
      ic == [q \in DOMAIN Reqs |-> IdealCspH(L, T, Reqs[q], [i \in DOMAIN L |-> f[q][i].ideal])]
      mv == [q \in DOMAIN Reqs |-> IdealVerdictsH(L, T, Res, Reqs[q], [i \in DOMAIN L |-> EngineHits(f, i, q)])]
      mc == [q \in DOMAIN Reqs |-> IdealCspH(L, T, Reqs[q], [i \in DOMAIN L |-> EngineHits(f, i, q)])]
      \* attribution data only where the model leaves the Ideal
      devq == {q \in DOMAIN Reqs : ~(mv[q] \subseteq iv[q]) \/ ~(mc[q] \subseteq ic[q])}
      \* Wire (v0 format): the removeparam list is not part of the image (named deviation
      \* wireDropsRemoveparam): the model of a reloaded engine is the list without those rules
      keepIdx == SelectSeq([i \in DOMAIN L |-> i], LAMBDA i : L[i].mkind # "removeparam")
      Lw == [j \in DOMAIN keepIdx |-> L[keepIdx[j]]]
      mvw == [q \in DOMAIN Reqs |-> IdealVerdictsH(Lw, T, Res, Reqs[q], [j \in DOMAIN keepIdx |-> EngineHits(f, keepIdx[j], q)])]
      base0 == [k |-> "net", u |-> U, mono |-> (U \in {"c01", "c01d", "c05", "rand"}), rules |-> [i \in DOMAIN L |-> RuleText(L[i])], tags |-> T,
               v |-> iv, csp |-> ic,
               \* check_network_request_subset under the three other flag combinations (universes c01 and c07)
               subset |-> IF U \in {"c01", "c07", "c14", "rand"}
                          THEN [q \in DOMAIN Reqs |->
                                  [fl \in {<<TRUE, FALSE>>, <<FALSE, TRUE>>, <<TRUE, TRUE>>} |->
                                     UNION {VerdictsSubset(L, hv, T, Res, Reqs[q], fl[1], fl[2]) :
                                              hv \in HitVectorsH([i \in DOMAIN L |-> f[q][i].ideal])}]]
                          ELSE <<>>,
               \* Optimizer.tla: which rules the optimised engine fuses (observable in the debug text)
               fuse |-> IF U \in {"c01", "c04m", "c05", "rand"}
                        THEN SetToSeqD({ {RuleText(L[i]) : i \in G} : G \in AllFuseGroups(L, T) }) ELSE <<>>,
               dev |-> SetToSeqD({ [q |-> q, names |-> UNION {DevHit(L[i], Reqs[q]) : i \in DOMAIN L}, mv |-> mv[q], mcsp |-> mc[q]] : q \in devq })]
      mh == [q \in DOMAIN Reqs |-> [i \in DOMAIN L |->
               IF Supported(Reqs[q]) THEN f[q][i].ideal ELSE {TRUE, FALSE}]]
      hd == {p \in (DOMAIN Reqs) \X (DOMAIN L) : f[p[1]][p[2]].impl \notin mh[p[1]][p[2]]}
      base == IF U \in {"c08", "randr"}
              THEN base0 @@ [reload |-> TRUE,
                             wire |-> IF Len(keepIdx) = Len(L) THEN <<>>
                                      ELSE << [names |-> {"wireDropsRemoveparam"}, mv |-> mvw] >>]
              ELSE base0
  IN IF U = "c03"
     THEN base @@ [hits |-> mh,
                   hdev |-> SetToSeqD({ [q |-> p[1], i |-> p[2], names |-> DevHit(L[p[2]], Reqs[p[1]]),
                                         m |-> f[p[1]][p[2]].impl] : p \in hd })]
     ELSE base

\* Adjudication: the clause "requests with unsupported schemes are never matched" is decided at
\* engine level (Blocker::check / get_csp_directives gate on is_supported); the per-rule matcher is
\* a building block that is only ever handed supported requests, so it is left unspecified there.

\* C04 (M1): rule addition is monotone in the Ideal, for every consistent resolution of the
\* three-valued hits: removing an exception rule never unblocks, removing a blocking rule never blocks
Eligible(r) == ~r.badfilter /\ r.mkind \in {"none", "redirect", "redirect-rule"} /\ ~r.ghide
Without(sq, i) == [j \in 1..(Len(sq) - 1) |-> IF j < i THEN sq[j] ELSE sq[j + 1]]
BlockedSet(l, h, q) == {x.matched : x \in VerdictsFor(l, h, T, Res, Reqs[q])}
MonotoneIdeal(f) ==
  \A i \in DOMAIN L : Eligible(L[i]) =>
    \A q \in DOMAIN Reqs :
      \A h \in HitVectorsH([k \in DOMAIN L |-> f[q][k].ideal]) :
        LET with == BlockedSet(L, h, q)
            wout == BlockedSet(Without(L, i), Without(h, i), q) IN
        IF L[i].exc THEN (TRUE \in with => TRUE \in wout)      \* adding an exception never blocks
        ELSE (TRUE \in wout => TRUE \in with)                  \* adding a blocking rule never unblocks

\* M1 (the code-shaped hit model refines the Ideal outside the named deviations) and the
\* M2 export, in one pass over the fact table
RefinesAndExports ==
  stage = "case" =>
    LET f == Facts IN
    /\ \A q \in DOMAIN Reqs : \A i \in DOMAIN L :
          \/ ~Supported(Reqs[q])
          \/ f[q][i].impl \in f[q][i].ideal
          \/ DevHit(L[i], Reqs[q]) # {}
    /\ \A q \in DOMAIN Reqs : IdealVerdictsH(L, T, Res, Reqs[q], [i \in DOMAIN L |-> f[q][i].ideal]) # {}
    /\ MonotoneIdeal(f)
    /\ (U \in {"c01", "c04m", "c05", "rand"} => FuseSound(L, T, Reqs) /\ \A i \in DOMAIN L : TokenViewsAgree(L[i]))
    /\ PrintT(ToJson(CaseRecord(f)))

ASSUME PrintT(ToJson([k |-> "universe", u |-> U,
         reqs |-> [q \in DOMAIN Reqs |->
                     [url |-> Str(Reqs[q].url), alias |-> Reqs[q].alias,
                      src |-> IF Len(Reqs[q].src) = 0 THEN "" ELSE "https://" \o Str(Reqs[q].src) \o "/"]],
         res |-> IF Res = {} THEN <<>> ELSE ResSeqC13]))
=============================================================================
