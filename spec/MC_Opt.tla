------------------------------- MODULE MC_Opt -------------------------------
(***************************************************************************)
(* Universe of option SPELLINGS (C03, C11): every sequence of <= K tokens    *)
(* from a vocabulary holding every option name the parser knows with its     *)
(* aliases, negated and not, with and without a value, plus unknown names,   *)
(* on a plain and on a '||host^' pattern, as blocking rule and as exception. *)
(* Options!ParseOptions says whether the line is a rule and which; the       *)
(* Ideal verdicts of that one-rule list are exported for replay (parse_filter *)
(* accept / reject, then every request on a real engine).                    *)
(***************************************************************************)
EXTENDS Options, TLC, Json

CONSTANTS K, Big
VARIABLES stage, part, toks, base
vars == <<stage, part, toks, base>>

B(s) == Chars(s)
Bases == << [R0 EXCEPT !.body = B("/ab")], [R0 EXCEPT !.body = B("/ab"), !.exc = TRUE],
            [R0 EXCEPT !.left = "dpipe", !.body = B("ab.ba^")], [R0 EXCEPT !.left = "dpipe", !.body = B("ab.ba^"), !.exc = TRUE] >>

TypeNames == <<"image", "media", "object", "object-subrequest", "other", "ping", "beacon", "script", "stylesheet", "css",
               "subdocument", "frame", "xmlhttprequest", "xhr", "websocket", "font">>
\* every name, plain and negated; valued names with good and bad values; unknown names; the empty token
VocabFull ==
  [i \in DOMAIN TypeNames |-> Tok(TypeNames[i], FALSE, "")] \o [i \in DOMAIN TypeNames |-> Tok(TypeNames[i], TRUE, "")]
  \o << Tok("document", FALSE, ""), Tok("doc", FALSE, ""), Tok("document", TRUE, ""), Tok("doc", TRUE, ""),
        Tok("third-party", FALSE, ""), Tok("3p", FALSE, ""), Tok("third-party", TRUE, ""), Tok("3p", TRUE, ""),
        Tok("first-party", FALSE, ""), Tok("1p", FALSE, ""), Tok("first-party", TRUE, ""), Tok("1p", TRUE, ""),
        Tok("important", FALSE, ""), Tok("important", TRUE, ""), Tok("important", FALSE, "x"),
        Tok("badfilter", FALSE, ""), Tok("badfilter", TRUE, ""), Tok("match-case", FALSE, ""), Tok("match-case", TRUE, ""),
        Tok("generichide", FALSE, ""), Tok("ghide", FALSE, ""), Tok("generichide", TRUE, ""), Tok("ghide", TRUE, ""),
        Tok("domain", FALSE, "a.com"), Tok("from", FALSE, "a.com"), Tok("domain", FALSE, "~a.com"), Tok("domain", FALSE, "a.com|~s.a.com"),
        Tok("domain", FALSE, "/re/"), Tok("domain", FALSE, "a.com|/re/"), Tok("domain", FALSE, "a.com|~a.com"), Tok("domain", FALSE, "~a.com|~s.a.com|s.a.com"), Tok("domain", TRUE, "a.com"), Tok("from", FALSE, "~s.a.com|a.com"),
        Tok("tag", FALSE, "t1"), Tok("tag", TRUE, "t1"),
        Tok("redirect", FALSE, "r1"), Tok("redirect", FALSE, ""), Tok("redirect", TRUE, "r1"),
        Tok("redirect-rule", FALSE, "r2"), Tok("redirect-rule", FALSE, ""), Tok("redirect-rule", TRUE, "r2"),
        Tok("csp", FALSE, "d1"), Tok("csp", FALSE, ""), Tok("csp", TRUE, "d1"),
        Tok("removeparam", FALSE, "q"), Tok("removeparam", FALSE, ""), Tok("removeparam", FALSE, "q*"), Tok("removeparam", TRUE, "q"),
        Tok("script", FALSE, "x"), Tok("popup", FALSE, ""), Tok("all", FALSE, ""), Tok("genericblock", FALSE, ""), Tok("elemhide", FALSE, ""),
        Tok("empty", FALSE, ""), Tok("inline-script", FALSE, ""), Tok("", FALSE, ""), Tok("Script", FALSE, ""), Tok("webrtc", TRUE, "") >>
\* the tokens that combine (pairs / triples): one spelling of each effect
VocabSmall ==
  << Tok("script", FALSE, ""), Tok("image", TRUE, ""), Tok("xhr", FALSE, ""), Tok("frame", TRUE, ""), Tok("doc", FALSE, ""),
     Tok("3p", FALSE, ""), Tok("1p", FALSE, ""), Tok("third-party", TRUE, ""), Tok("first-party", TRUE, ""),
     Tok("important", FALSE, ""), Tok("badfilter", FALSE, ""), Tok("ghide", FALSE, ""), Tok("match-case", FALSE, ""),
     Tok("domain", FALSE, "a.com|~s.a.com"), Tok("from", FALSE, "~a.com"), Tok("tag", FALSE, "t1"),
     Tok("redirect", FALSE, "r1"), Tok("redirect-rule", FALSE, "r2"), Tok("csp", FALSE, "d1"), Tok("csp", FALSE, ""),
     Tok("removeparam", FALSE, "q"), Tok("popup", FALSE, ""), Tok("websocket", FALSE, ""), Tok("css", TRUE, "") >>

MkReq(alias, src) ==
  LET pre == Chars("https://") h == Chars("ab.ba") IN
  [url |-> pre \o h \o Chars("/ab?q=1&z=2"), hs |-> Len(pre) + 1, he |-> Len(pre) + Len(h),
   scheme |-> "https", alias |-> alias, src |-> Chars(src), tp |-> src # "ab.ba"]
Reqs == SetToSeqD({ MkReq(al, src) : al \in {"script", "image", "sub_frame", "document", "xhr", "stylesheet", "other", "websocket"},
                                     src \in {"ab.ba", "x.com", "a.com", "s.a.com"} })
Res == { [name |-> "r1", aliases |-> {}, redirectable |-> TRUE, perm |-> 0],
         [name |-> "r2", aliases |-> {}, redirectable |-> TRUE, perm |-> 0] }
ResSeq == << [name |-> "r1", aliases |-> {}, redirectable |-> TRUE, perm |-> 0, kind |-> "text/plain", content |-> "r1"],
             [name |-> "r2", aliases |-> {}, redirectable |-> TRUE, perm |-> 0, kind |-> "application/javascript", content |-> "r2"] >>

\* a case: base x first token (seed) x the remaining tokens
Firsts == [i \in 1..(Len(VocabFull) + Len(VocabSmall)) |-> IF i <= Len(VocabFull) THEN VocabFull[i] ELSE VocabSmall[i - Len(VocabFull)]]
Init == stage = "seed" /\ part \in DOMAIN Firsts /\ toks = <<>> /\ base = R0
Next ==
  /\ stage = "seed" /\ stage' = "case" /\ part' = part
  /\ base' \in SeqToSet(Bases)
  /\ \/ toks' = <<Firsts[part]>>
     \/ (part > Len(VocabFull) /\ K >= 2 /\ \E t \in SeqToSet(VocabSmall) : toks' = <<Firsts[part], t>>)
     \/ (part > Len(VocabFull) /\ K >= 3 /\ \E t \in SeqToSet(VocabSmall), u \in SeqToSet(VocabSmall) : toks' = <<Firsts[part], t, u>>)

\* tag + redirect / removeparam is documented as unsupported (src/blocker.rs: "`tag` + `redirect` is
\* unsupported for now"): outside the domain, as in C07
Unsupported(ts) == (\E i \in DOMAIN ts : ts[i].name = "tag" /\ ~ts[i].neg)
                   /\ (\E i \in DOMAIN ts : ts[i].name \in {"redirect", "redirect-rule", "removeparam"})
\* tags: a tagged rule is tested with its tag enabled
TagsOf(r) == IF r.tag = "" THEN {} ELSE {r.tag}

Exported ==
  (stage = "case" /\ ~Unsupported(toks)) =>
    LET p == ParseOptions(base, toks)
        L == IF p.ok THEN <<p.r>> ELSE <<>>
        T == IF p.ok THEN TagsOf(p.r) ELSE {} IN
    PrintT(ToJson([k |-> "net", u |-> "opt", rules |-> <<OptRuleText(base, toks)>>, parse_ok |-> p.ok, tags |-> T,
                   v |-> [q \in DOMAIN Reqs |-> IdealVerdicts(L, T, Res, Reqs[q])],
                   csp |-> [q \in DOMAIN Reqs |-> IdealCsp(L, T, Reqs[q])]]))

\* design sanity (M1): aliases are exact synonyms, and negating a party option is the other party
Synonyms ==
  stage = "case" =>
    LET swap(t) == CASE t.name = "xhr" -> [t EXCEPT !.name = "xmlhttprequest"] [] t.name = "css" -> [t EXCEPT !.name = "stylesheet"]
                     [] t.name = "frame" -> [t EXCEPT !.name = "subdocument"] [] t.name = "doc" -> [t EXCEPT !.name = "document"]
                     [] t.name = "ghide" -> [t EXCEPT !.name = "generichide"] [] t.name = "from" -> [t EXCEPT !.name = "domain"]
                     [] t.name = "3p" /\ ~t.neg -> Tok("first-party", TRUE, "") [] t.name = "1p" /\ ~t.neg -> Tok("third-party", TRUE, "")
                     [] OTHER -> t IN
    ParseOptions(base, toks) = ParseOptions(base, [i \in DOMAIN toks |-> swap(toks[i])])

ASSUME PrintT(ToJson([k |-> "universe",
         reqs |-> [q \in DOMAIN Reqs |-> [url |-> Str(Reqs[q].url), alias |-> Reqs[q].alias, src |-> "https://" \o Str(Reqs[q].src) \o "/"]],
         res |-> ResSeq]))
=============================================================================
