------------------------------ MODULE MC_Perm ------------------------------
(***************************************************************************)
(* C18, the permission gate over the whole 8-bit space: a resource that     *)
(* requires the permission bits R may be injected on behalf of a list that   *)
(* was granted the bits P iff R is a subset of P (Cosmetic!Injection uses    *)
(* exactly `x.perm \subseteq p`).  One TLC state per resource mask; each     *)
(* exports the allowed answer for all 256 list masks, and - for a sample of  *)
(* dependency masks - for a scriptlet whose dependency carries its own mask. *)
(* Replayed on PermissionMask::is_injectable_by, on                          *)
(* ResourceStorage::get_scriptlet_resources and on Engine (rule list with    *)
(* that permission + url_cosmetic_resources).                                *)
(***************************************************************************)
EXTENDS Naturals, TLC, Json

VARIABLE rp
Bits(n) == {b \in 0..7 : (n \div (2 ^ b)) % 2 = 1}
Injectable(r, p) == Bits(r) \subseteq Bits(p)
DepMasks == {0, 1, 2, 3, 4, 128, 129, 255}

Init == rp \in 0..255
Next == UNCHANGED rp

\* design sanity: the gate is monotone in the grant and antitone in the requirement
Monotone == \A p \in 0..255 : Injectable(rp, p) => \A q \in 0..255 : Bits(p) \subseteq Bits(q) => Injectable(rp, q)

Exported ==
  PrintT(ToJson([k |-> "perm", rp |-> rp,
                 allowed |-> [p \in 0..255 |-> Injectable(rp, p)],
                 deps |-> [d \in DepMasks |-> [p \in 0..255 |-> Injectable(rp, p) /\ Injectable(d, p)]]]))
=============================================================================
