INIT Init
NEXT Next
CONSTANTS
  Keys = {1, 2}
  MaxT = 9
  Dts = {0, 1, 2, 4}
  Depth = 1000
  Policies <- MCPolicies
VIEW MCView
CONSTRAINT Bounded
INVARIANT TypeOK
PROPERTIES UsedIsCompiled Monotone CleanupIsThorough NoCleanupWhenOff
CHECK_DEADLOCK FALSE
