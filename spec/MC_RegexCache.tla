---------------------------- MODULE MC_RegexCache ----------------------------
(***************************************************************************)
(* M1 for the compiled-regex cache: the design properties of RegexCache on   *)
(* exact clock ticks, and (in simulation mode) the generator of operation    *)
(* scripts that the harness replays on a real engine (M2); the recorded run  *)
(* is then validated by Trace_Regex (M3).                                    *)
(***************************************************************************)
EXTENDS RegexCache, TLC, Json

\* the model-checked system (exact ticks)
CONSTANTS MaxT, Policies, Dts, Depth
VARIABLES m, hist

Init == m = Fresh(At(0)) /\ hist = <<>>

Tick(dt) == At(m.now.lo + dt)
Step(op, results) == /\ Len(hist) < Depth /\ m' \in results /\ hist' = Append(hist, op)

Next ==
  \E dt \in Dts :
     /\ m.now.lo + dt <= MaxT
     /\ \/ \E S \in (SUBSET Keys) \ {{}} : Step([op |-> "check", dt |-> dt, keys |-> S], Check(m, Tick(dt), S))
        \/ \E p \in Policies : p # m.policy /\ Step([op |-> "policy", dt |-> dt, interval |-> p.interval, unused |-> p.unused], SetPolicy(m, Tick(dt), p))
        \/ \E k \in Keys : m.cache[k].st = "compiled" /\ Step([op |-> "discard", dt |-> dt, key |-> k], Discard(m, Tick(dt), k))
        \/ (\E k \in Keys : m.cache[k].st # "absent") /\ Step([op |-> "retag", dt |-> dt], Clear(m, Tick(dt)))
        \/ Step([op |-> "obs", dt |-> dt], Observe(m, Tick(dt)))

vars == <<m, hist>>
MCPolicies == {[interval |-> 0, unused |-> 1], [interval |-> 1, unused |-> 2], [interval |-> 3, unused |-> 1],
               [interval |-> 1, unused |-> 0], [interval |-> 2, unused |-> 4]}
MCView == m
Bounded == m.count <= 5 /\ \A k \in Keys : m.cache[k].uses <= 3

\* ---- properties of the design
TypeOK ==
  /\ \A k \in Keys : /\ m.cache[k].st \in {"absent", "compiled", "discarded"}
                     /\ (m.cache[k].st = "absent") = (m.cache[k].uses = 0)
                     /\ m.cache[k].last.hi <= m.now.lo
  /\ m.lastCleanup.hi <= m.now.lo
  /\ Cardinality({k \in Keys : m.cache[k].st = "compiled"}) <= m.count

\* a regex that a query has just used is compiled when the query reads it (the implementation unwraps it)
UsedIsCompiled ==
  [][(Len(hist') > Len(hist) /\ hist'[Len(hist')].op = "check")
        => \A k \in hist'[Len(hist')].keys : m'.cache[k].st = "compiled" /\ m'.cache[k].last = m'.now]_vars

\* counters only grow, except that emptying the cache forgets use counts
Monotone ==
  [][/\ m'.count >= m.count
     /\ m'.now.lo >= m.now.lo
     /\ (Len(hist') > Len(hist) /\ hist'[Len(hist')].op # "retag") => \A k \in Keys : m'.cache[k].uses >= m.cache[k].uses]_vars

\* a cleanup (recognisable by lastCleanup moving) leaves no compiled regex that has been idle for the
\* discard time of the policy in force when it ran
CleanupIsThorough ==
  [][m'.lastCleanup # m.lastCleanup
        => \A k \in Keys : m'.cache[k].st = "compiled"
              => m'.now.lo - m'.cache[k].last.lo < m.policy.unused \/ m'.cache[k].last = m'.now]_vars

\* with cleaning switched off nothing is ever discarded behind the caller's back
NoCleanupWhenOff ==
  [][(m.policy.interval = 0 /\ Len(hist') > Len(hist) /\ hist'[Len(hist')].op \in {"check", "obs", "policy"})
        => \A k \in Keys : m.cache[k].st = "compiled" => m'.cache[k].st = "compiled"]_vars

\* M2: in simulation mode every behaviour that reaches the depth bound is printed as a script
Exported == (Len(hist) = Depth) => PrintT(ToJson([script |-> hist]))
=============================================================================
