------------------------------ MODULE MC_Req ------------------------------
(***************************************************************************)
(* C12: a request built from URL strings.  A URL is a record of components  *)
(*   [scheme, userinfo, host, port, rest]                                   *)
(* rendered to text; the Ideal says what Request::new must report for it:   *)
(* hostname = the host component, third-party iff the registrable domains   *)
(* of request and source differ (or there is no usable source), websocket   *)
(* schemes force the websocket type, only http/https/ws/wss are supported.  *)
(* One TLC state per (URL record, source); exported for replay on            *)
(* Request::new and Request::preparsed.                                     *)
(* anchors: src/request.rs:124-245, src/url_parser/parser.rs:319-541,       *)
(*          src/url_parser/mod.rs:28-49                                     *)
(***************************************************************************)
EXTENDS Cosmetic, TLC, Json

CONSTANT Big
VARIABLES stage, part, u, src, alias
vars == <<stage, part, u, src, alias>>

\* scheme characters are letters, digits, '+', '-' and '.'
Schemes == {"https", "http", "ws", "wss", "ftp", "HTTPS", "Ws", "gopher", "chrome-extension", "web+ab", "a.b"}
\* "@" stands for an EMPTY userinfo that is nevertheless written ('https://@a.com/'), ":@" for an empty user and password
UserInfos == IF Big THEN {"", "u", "u:p", "a.com", "u:p@x", "@", ":@"} ELSE {"", "u:p", "a.com", "@", ":@"}
HostsU == {"a.com", "s.a.com", "t.s.a.com", "b.com", "a.co.uk", "s.a.co.uk", "b.co.uk", "xa.com", "localhost",
           "1.2.3.4", "5.2.3.4", "a-b.com", "a.b.a.com", "A.com", "S.a.COM", "bücher.a.com", "пример.рф",
           \* IPv6 literals (the brackets are part of the host component) and fully qualified names
           "[::1]", "[2001:db8::1]", "a.com.", "s.a.com.",
           \* a top-level label outside the public suffix list (default rule: the suffix is the last label)
           "a.internal", "s.a.internal", "b.internal",
           \* hosts that are nothing but a public suffix, or a single label: each is its own site
           "co.uk", "com", "printer"}
\* with a trailing dot the statement does not say whether 'a.com.' and 'a.com' are the same registrable
\* domain: the party is left unspecified for those hosts, the hostname is not
TrailingDot(h) == Len(Chars(h)) > 0 /\ Chars(h)[Len(Chars(h))] = "."
\* punycode is a given (DESIGN.md section 3.1): the ASCII form of the IDN hosts of the universe
Ascii(h) == CASE h = "bücher.a.com" -> "xn--bcher-kva.a.com" [] h = "пример.рф" -> "xn--e1afmkfd.xn--p1ai" [] OTHER -> h
Ports == {"", "8080"}
\* for the special schemes a backslash ends the authority like a slash does (WHATWG URL): text after it,
\* an '@' included, belongs to the path
Rests == {"/", "", "/p?q=1", "?q=a@b.com", "#f@b.com", "/a.com/@x", "/p#f?x", "\\@b.com/x", "\\p"}
SrcHosts == {"a.com", "s.a.com", "b.com", "a.co.uk", "b.co.uk", "co.uk", "1.2.3.4", "localhost", "t.s.a.com", "[::1]", "a.internal", "t.a.internal", "com", "intranet"}
Aliases == IF Big THEN {"script", "document", "websocket", "xhr", "foo"} ELSE {"script", "foo"}

LowerStr(s) == Str(LowerS(Chars(s)))
\* for a scheme that is not special a backslash is an ordinary character (there it would belong to the authority):
\* those combinations are left out of the universe
SpecialScheme(sc) == LowerStr(sc) \in {"http", "https", "ws", "wss", "ftp", "gopher"}
RestsFor(sc) == IF SpecialScheme(sc) THEN Rests ELSE {r \in Rests : Chars(r) = <<>> \/ Chars(r)[1] # "\\"}
\* Tabs and line breaks inside a URL are not part of it (WHATWG URL: they are removed before parsing): the host
\* component of 'exa<TAB>mple.com' is 'example.com'.  A spelling <<p, t>> writes the text t after the p-th
\* character of the host.
Spellings == << <<0, "">>, <<2, "\t">>, <<1, "\n">>, <<3, "\r\n">>, <<0, "\t">>, <<4, "\t\t">> >>
HostsSpelled == {"a.com", "s.a.co.uk", "bücher.a.com", "[::1]", "A.com"}
Spelled(h, k) == LET cs == Chars(h) p == Spellings[k][1] IN
                 Str(SubSeq(cs, 1, p)) \o Spellings[k][2] \o Str(SubSeq(cs, p + 1, Len(cs)))
UserInfoText(ui) == IF ui = "" THEN "" ELSE IF ui = "@" THEN "@" ELSE IF ui = ":@" THEN ":@" ELSE ui \o "@"
Text(x) == x.scheme \o "://" \o UserInfoText(x.userinfo) \o Spelled(x.host, x.spell)
           \o (IF x.port = "" THEN "" ELSE ":" \o x.port) \o x.rest

IsIp(h) == (Chars(h)[1] = "[") \/ \A i \in 1..Len(Chars(h)) : Chars(h)[i] \in Digits \cup {"."}
RegDomainIp(h) == IF IsIp(h) \/ Len(Labels(h)) = 1 THEN h ELSE RegDomain(h)

TypeOf(a) == CASE a = "script" -> "script" [] a = "document" -> "document" [] a = "websocket" -> "websocket"
               [] a = "xhr" -> "xmlhttprequest" [] OTHER -> "other"

\* src: "" = no source; "%" = a source string that is not a URL; otherwise a hostname
Expect(x, s, a) ==
  LET sc == LowerStr(x.scheme) IN
  [hostname |-> LowerStr(Ascii(x.host)),
   tp |-> (s = "" \/ s = "%" \/ RegDomainIp(LowerStr(x.host)) # RegDomainIp(s)),
   tp_any |-> (TrailingDot(x.host) /\ s \notin {"", "%"}),
   supported |-> sc \in {"http", "https", "ws", "wss"},
   http |-> sc = "http", https |-> sc = "https",
   type |-> IF sc \in {"ws", "wss"} THEN "websocket" ELSE TypeOf(a)]

Parts == SetToSeqC(Schemes \X Ports)
Init == stage = "seed" /\ part \in 1..Len(Parts) /\ u = [scheme |-> "", userinfo |-> "", host |-> "", port |-> "", rest |-> "", spell |-> 1]
        /\ src = "" /\ alias = ""
Next == /\ stage = "seed" /\ stage' = "case" /\ part' = part
        /\ u' \in [scheme : {Parts[part][1]}, userinfo : UserInfos, host : HostsU, port : {Parts[part][2]}, rest : RestsFor(Parts[part][1]), spell : {1}]
                 \cup [scheme : {Parts[part][1]}, userinfo : {"", "u:p"}, host : HostsSpelled, port : {Parts[part][2]}, rest : {"/", "/p?q=1", ""},
                       spell : 2..Len(Spellings)]
        /\ src' \in SrcHosts \cup {"", "%"}
        /\ alias' \in Aliases

Exported ==
  stage = "case" =>
    PrintT(ToJson([k |-> "req", url |-> Text(u), src |-> IF src = "" THEN "" ELSE IF src = "%" THEN "not a url" ELSE "https://" \o src \o "/x",
                   alias |-> alias, expect |-> Expect(u, src, alias)]))
=============================================================================
