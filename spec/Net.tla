-------------------------------- MODULE Net --------------------------------
(***************************************************************************)
(* Ideal layer of the network side: what a rule means (options, C03), how   *)
(* hits combine into a verdict (C01/C04 precedence, C13 redirect choice,    *)
(* C14 removeparam rewrite, C15 CSP merge), tags (C07) and badfilter (C04). *)
(* anchors: src/filters/network.rs:436-600, src/filters/network_matchers.rs *)
(*          :397-462, src/blocker.rs:118-415,417-507, src/request.rs:48-186 *)
(*                                                                         *)
(* A rule is an AST (record); Print renders the ABP text handed to the real *)
(* parser, so the spec knows what a line means independently of the parser. *)
(***************************************************************************)
EXTENDS Pattern

NetTypes == {"image", "media", "object", "other", "ping", "script", "stylesheet",
             "subdocument", "websocket", "xmlhttprequest", "font"}
TypeOrder == <<"image", "media", "object", "other", "ping", "script", "stylesheet",
               "subdocument", "websocket", "xmlhttprequest", "font", "document">>

\* rule AST; R0 is the default every universe rule is built from with EXCEPT
R0 == [exc |-> FALSE, left |-> "none", body |-> <<>>, right |-> FALSE,
       pos |-> {}, neg |-> {}, party |-> "any", dom |-> {}, ndom |-> {},
       important |-> FALSE, tag |-> "", badfilter |-> FALSE, ghide |-> FALSE,
       mkind |-> "none", mval |-> "", prio |-> "none"]
\* mkind \in {"none","redirect","redirect-rule","csp","removeparam"}; mval = resource
\* name / directive / parameter; prio (redirect only): "none" or the text after the last ':' (see PrioVal / MalformedPrio)

Pat(r) == [left |-> r.left, body |-> r.body, right |-> r.right]

--------------------------------------------------------------------------
\* printing (RuleText renders the ABP line)

RECURSIVE SetToSeqD(_)
SetToSeqD(S) == IF S = {} THEN <<>> ELSE LET x == CHOOSE y \in S : TRUE IN <<x>> \o SetToSeqD(S \ {x})

RECURSIVE JoinStr(_, _)
JoinStr(parts, sep) ==
  IF Len(parts) = 0 THEN "" ELSE IF Len(parts) = 1 THEN parts[1]
  ELSE parts[1] \o sep \o JoinStr(Tail(parts), sep)

Opts(r) ==
  SelectSeq(TypeOrder, LAMBDA t : t \in r.pos)
  \o [i \in 1..Len(SelectSeq(TypeOrder, LAMBDA t : t \in r.neg)) |->
        "~" \o SelectSeq(TypeOrder, LAMBDA t : t \in r.neg)[i]]
  \o (IF r.party = "3p" THEN <<"third-party">> ELSE IF r.party = "1p" THEN <<"first-party">> ELSE <<>>)
  \o (IF r.dom \cup r.ndom = {} THEN <<>>
      ELSE << "domain=" \o JoinStr(SetToSeqD(r.dom) \o
                 [i \in 1..Cardinality(r.ndom) |-> "~" \o SetToSeqD(r.ndom)[i]], "|") >>)
  \o (IF r.important THEN <<"important">> ELSE <<>>)
  \o (IF r.tag # "" THEN <<"tag=" \o r.tag>> ELSE <<>>)
  \o (IF r.ghide THEN <<"generichide">> ELSE <<>>)
  \o (IF r.mkind = "redirect" \/ r.mkind = "redirect-rule"
        THEN << r.mkind \o "=" \o r.mval \o (IF r.prio = "none" THEN "" ELSE ":" \o r.prio) >>
      ELSE IF r.mkind = "csp" THEN << IF r.mval = "" THEN "csp" ELSE "csp=" \o r.mval >>
      ELSE IF r.mkind = "removeparam" THEN << "removeparam=" \o r.mval >>
      ELSE <<>>)
  \o (IF r.badfilter THEN <<"badfilter">> ELSE <<>>)

RuleText(r) ==
  (IF r.exc THEN "@@" ELSE "")
  \o (IF r.left = "pipe" THEN "|" ELSE IF r.left = "dpipe" THEN "||" ELSE "")
  \o Str(r.body) \o (IF r.right THEN "|" ELSE "")
  \o (IF Len(Opts(r)) = 0 THEN "" ELSE "$" \o JoinStr(Opts(r), ","))

--------------------------------------------------------------------------
\* requests: [url, hs, he, scheme, alias, src, tp]
\*   alias = the request-type string handed to the API; src = source hostname as
\*   characters, <<>> when the request has no (parseable) source; tp = third party

TypeOfAlias(a) ==
  CASE a \in {"beacon", "ping"} -> "ping"
    [] a \in {"document", "main_frame"} -> "document"
    [] a = "font" -> "font"
    [] a \in {"image", "imageset"} -> "image"
    [] a = "media" -> "media"
    [] a \in {"object", "object_subrequest"} -> "object"
    [] a = "script" -> "script"
    [] a = "stylesheet" -> "stylesheet"
    [] a \in {"sub_frame", "subdocument"} -> "subdocument"
    [] a = "websocket" -> "websocket"
    [] a \in {"xhr", "xmlhttprequest"} -> "xmlhttprequest"
    [] a = "csp_report" -> "csp_report"
    [] OTHER -> "other"

Supported(q) == q.scheme \in {"http", "https", "ws", "wss"}
RType(q) == IF q.scheme \in {"ws", "wss"} THEN "websocket" ELSE TypeOfAlias(q.alias)

\* label-aligned suffixes of a hostname: the host itself and every parent
HostSuffixes(h) == {From(h, 1)} \cup {From(h, i + 1) : i \in {k \in 1..(Len(h) - 1) : h[k] = "."}}

--------------------------------------------------------------------------
\* C03: options (three-valued: sets of booleans)

And3(A, B) == {a /\ b : a \in A, b \in B}

BareHostRule(r) ==   \* '||host^' with no type option at all
  /\ r.left = "dpipe" /\ ~r.right /\ r.pos = {} /\ r.neg = {}
  /\ Len(r.body) >= 1 /\ r.body[Len(r.body)] = "^"
  /\ HostPartLen(r.body) = Len(r.body) - 1

AllowedTypes(r) ==
  IF r.mkind = "csp" THEN {"document", "subdocument"}
  ELSE IF r.mkind = "removeparam"
    THEN (IF r.pos = {} THEN {"document", "subdocument", "xmlhttprequest"} ELSE r.pos) \ r.neg
  ELSE LET net == (r.pos \cap NetTypes)
                  \cup (IF r.pos = {} \/ r.neg \cap NetTypes # {} THEN NetTypes ELSE {})
           doc == IF "document" \in r.pos \/ r.exc \/ BareHostRule(r) THEN {"document"} ELSE {} IN
       (net \ r.neg) \cup doc

TypeOK(r, q) == RType(q) \in AllowedTypes(r)
\* party "none": both party bits cleared ('$third-party,first-party'), the rule applies to no request
PartyOK(r, q) == (r.party = "3p" => q.tp) /\ (r.party = "1p" => ~q.tp) /\ r.party # "none"

\* domain=: a listed domain covers its subdomains, '~' entries exclude, exclusions win.
\* With no source hostname the statement does not say; the result is unspecified.
DomainOK(r, q) ==
  IF r.dom = {} /\ r.ndom = {} THEN {TRUE}
  ELSE IF Len(q.src) = 0 THEN {TRUE, FALSE}
  ELSE LET sufs == {Str(s) : s \in HostSuffixes(q.src)} IN
       {(r.dom = {} \/ sufs \cap r.dom # {}) /\ (sufs \cap r.ndom = {})}

\* 'csp_report' is a request type no rule option names.  A rule restricted to positive types can
\* never apply to it; whether an unrestricted rule does is not stated (the code never matches it).
CspReportOK(r) == IF r.pos # {} \/ r.mkind \in {"csp", "removeparam"} THEN {FALSE} ELSE {TRUE, FALSE}

OptionsOK(r, q) ==
  IF r.badfilter \/ ~Supported(q) \/ ~PartyOK(r, q) THEN {FALSE}
  ELSE IF RType(q) = "csp_report" THEN And3(CspReportOK(r), DomainOK(r, q))
  ELSE IF ~TypeOK(r, q) THEN {FALSE}
  ELSE DomainOK(r, q)

\* a pattern that is nothing but '*' (the usual spelling of "every URL, restricted by options only") is
\* not one of the unspecified degenerate spellings: '*' matches any run of characters, so it matches
MatchAll(r) == r.left = "none" /\ ~r.right /\ Len(r.body) >= 1 /\ \A i \in DOMAIN r.body : r.body[i] = "*"

\* does rule r hit request q (pattern and options)
Hit(r, q) ==
  LET o == OptionsOK(r, q) IN
  IF o = {FALSE} THEN {FALSE}
  ELSE And3(o, IF MatchAll(r) THEN {TRUE}
               ELSE IF Degenerate(Pat(r)) THEN {TRUE, FALSE} ELSE IdealMatch(Pat(r), q))

--------------------------------------------------------------------------
\* categories, tags, badfilter

Active(r, T) == r.tag = "" \/ r.tag \in T

\* z$badfilter cancels y iff same pattern and same matching options (tag apart)
Cancels(z, y) ==
  /\ z.badfilter /\ ~y.badfilter
  /\ [z EXCEPT !.badfilter = FALSE, !.tag = ""] = [y EXCEPT !.tag = ""]

Kind(r) ==
  IF r.badfilter THEN "bad"
  ELSE IF r.mkind = "csp" THEN "csp"
  ELSE IF r.mkind = "removeparam" THEN "rp"
  ELSE IF r.ghide THEN "gh"
  ELSE IF r.exc THEN "exc"
  ELSE IF r.important THEN "imp"
  ELSE IF r.mkind = "redirect-rule" THEN "rronly"
  ELSE "block"

IsRedirect(r) == r.mkind \in {"redirect", "redirect-rule"}

\* L: sequence of rules, h: sequence of booleans (does L[i] hit the request),
\* T: enabled tags.  Live rules = hitting, active, not cancelled.
Live(L, h, T) ==
  {i \in DOMAIN L : h[i] /\ Active(L[i], T) /\ ~L[i].badfilter
                    /\ ~\E j \in DOMAIN L : Cancels(L[j], L[i])}

--------------------------------------------------------------------------
\* C13: redirect choice.  Res: set of resources
\*   [name, aliases (set), redirectable (BOOLEAN), perm (Nat)]

\* the suffix after the last ':' is a priority when it parses as a 32-bit signed integer (Rust's i32 FromStr:
\* optional sign, decimal digits, no blanks); only the ORDER of priorities matters, so the two ends of the
\* i32 range are represented by +-1000000
PrioVal(p) == CASE p = "none" -> 0 [] p = "0" -> 0 [] p = "1" -> 1 [] p = "10" -> 10
                [] p = "-1" -> 0 - 1 [] p = "+1" -> 1 [] p = "01" -> 1 [] p = "-0" -> 0
                [] p = "-2147483648" -> 0 - 1000000 [] p = "2147483647" -> 1000000
                [] p = "-2147483647" -> 0 - 999999 [] OTHER -> 0
\* a malformed priority suffix (not an i32: letters, empty, a blank, out of range) is part of the resource name
MalformedPrio(p) == p \in {"x", "", "2147483648", "-2147483649", "1 ", "1.0"}
ResName(r) == IF MalformedPrio(r.prio) THEN r.mval \o ":" \o r.prio ELSE r.mval

\* A resource store is built by adding resources one at a time; an addition whose name or one of
\* whose aliases is already known (as a name or as an alias) is rejected and changes nothing.
RECURSIVE EffectiveStore(_)
EffectiveStore(rs) ==
  IF Len(rs) = 0 THEN {}
  ELSE LET prev == EffectiveStore(SubSeq(rs, 1, Len(rs) - 1))
           x == rs[Len(rs)]
           known == UNION {{y.name} \cup y.aliases : y \in prev}
       IN IF ({x.name} \cup x.aliases) \cap known # {} THEN prev ELSE prev \cup {x}

ResourceOut(Res, name) ==
  LET c == {x \in Res : x.name = name \/ name \in x.aliases} IN
  IF c = {} THEN ""
  ELSE LET x == CHOOSE y \in c : TRUE IN
       IF x.redirectable /\ x.perm = 0 THEN x.name ELSE ""

RedirectAllowed(L, live, Res) ==
  LET excepted == {ResName(L[i]) : i \in {k \in live : L[k].exc /\ IsRedirect(L[k])}}
      cand == {i \in live : ~L[i].exc /\ IsRedirect(L[i]) /\ L[i].tag = "" /\ ResName(L[i]) \notin excepted}
      best == {i \in cand : \A j \in cand : PrioVal(L[j].prio) <= PrioVal(L[i].prio)} IN
  IF cand = {} THEN {""} ELSE {ResourceOut(Res, ResName(L[i])) : i \in best}

--------------------------------------------------------------------------
\* C14: removeparam rewrite (structural)

QueryStart(u) ==   \* index of the '?' that starts the query, 0 if none (must precede '#')
  LET h == FirstChar("#", u)
      lim == IF h = 0 THEN Len(u) ELSE h - 1
      qs == {i \in 1..lim : u[i] = "?"} IN
  IF qs = {} THEN 0 ELSE Min(qs)

\* set of allowed rewritten URLs ("" = no rewrite reported)
RewriteAllowed(u, names) ==
  LET qi == QueryStart(u) IN
  IF qi = 0 THEN {""}
  ELSE LET h == FirstChar("#", u)
           qend == IF h = 0 THEN Len(u) ELSE h - 1
           params == Split(Sub(u, qi + 1, qend), "&")
           Removed(p) == LET e == FirstChar("=", p) IN
                         e # 0 /\ e < Len(p) /\ Str(Sub(p, 1, e - 1)) \in names
           keep == SelectSeq(params, LAMBDA p : ~Removed(p)) IN
       IF Len(keep) = Len(params) THEN {""}
       ELSE LET joined == JoinWith(keep, <<"&">>)
                pre == Sub(u, 1, qi - 1)
                frag == IF h = 0 THEN <<>> ELSE From(u, h)
                with == Str(pre \o <<"?">> \o joined \o frag)
                without == Str(pre \o joined \o frag) IN
            IF Len(keep) = 0 THEN {without}
            ELSE IF Len(joined) = 0 THEN {with, without}   \* only empty pairs remain: lenient
            ELSE {with}

--------------------------------------------------------------------------
\* the verdict of Engine::check_network_request

NoVerdict == [matched |-> FALSE, important |-> FALSE, exception |-> FALSE, redirect |-> "", rewritten |-> ""]

VerdictsFor(L, h, T, Res, q) ==
  IF ~Supported(q) THEN {NoVerdict}
  ELSE LET live == Live(L, h, T)
           imp == \E i \in live : Kind(L[i]) = "imp"
           blk == \E i \in live : Kind(L[i]) = "block"
           exc == \E i \in live : Kind(L[i]) = "exc"
           rp == {L[i].mval : i \in {k \in live : Kind(L[k]) = "rp" /\ L[k].tag = ""}} IN
       {[matched |-> imp \/ (blk /\ ~exc), important |-> imp,
         exception |-> ~imp /\ blk /\ exc, redirect |-> rd, rewritten |-> rw] :
          rd \in RedirectAllowed(L, live, Res),
          rw \in (IF imp THEN {""} ELSE RewriteAllowed(q.url, rp))}

\* Engine::check_network_request_subset(request, previously_matched_rule, force_check_exceptions):
\* the variant used when several engines are consulted in turn (beyond the listed properties; the
\* specification of src/blocker.rs:147-271 with both flags).  prev = an earlier engine already matched
\* (then only $important rules of this engine are looked at); force = look for exceptions even if
\* nothing matched here.  With both flags FALSE this is VerdictsFor.
VerdictsSubset(L, h, T, Res, q, prev, force) ==
  IF ~Supported(q) THEN {NoVerdict}
  ELSE LET live == Live(L, h, T)
           imp == \E i \in live : Kind(L[i]) = "imp"
           blk == \E i \in live : Kind(L[i]) = "block"
           exc == \E i \in live : Kind(L[i]) = "exc"
           found == imp \/ (~prev /\ blk)
           excChecked == IF imp THEN FALSE ELSE IF found THEN TRUE ELSE (prev \/ force)
           exception == excChecked /\ exc
           rp == {L[i].mval : i \in {k \in live : Kind(L[k]) = "rp" /\ L[k].tag = ""}} IN
       {[matched |-> ~exception /\ (found \/ prev), important |-> imp,
         exception |-> exception, redirect |-> rd, rewritten |-> rw] :
          rd \in RedirectAllowed(L, live, Res),
          rw \in (IF imp THEN {""} ELSE RewriteAllowed(q.url, rp))}

\* C15: the CSP query; result is a set of directives, {} = no policy
CspFor(L, h, T, q) ==
  IF ~Supported(q) \/ RType(q) \notin {"document", "subdocument"} THEN {}
  ELSE LET live == {i \in Live(L, h, T) : Kind(L[i]) = "csp"}
           blanket == \E i \in live : L[i].exc /\ L[i].mval = ""
           on == {L[i].mval : i \in {k \in live : ~L[k].exc /\ L[k].mval # ""}}
           off == {L[i].mval : i \in {k \in live : L[k].exc}} IN
       IF blanket THEN {} ELSE on \ off

\* all consistent resolutions of three-valued hits (hs[i] = the set Hit(L[i], q))
\* every resolution of the three-valued hits: only the undetermined positions vary (2^|undetermined| vectors)
HitVectorsH(hs) ==
  LET unc == {i \in DOMAIN hs : hs[i] = {TRUE, FALSE}} IN
  { [i \in DOMAIN hs |-> IF i \in unc THEN i \in S ELSE TRUE \in hs[i]] : S \in SUBSET unc }
IdealVerdictsH(L, T, Res, q, hs) == UNION {VerdictsFor(L, h, T, Res, q) : h \in HitVectorsH(hs)}
IdealCspH(L, T, q, hs) == {CspFor(L, h, T, q) : h \in HitVectorsH(hs)}

IdealVerdicts(L, T, Res, q) == IdealVerdictsH(L, T, Res, q, [i \in DOMAIN L |-> Hit(L[i], q)])
IdealCsp(L, T, q) == IdealCspH(L, T, q, [i \in DOMAIN L |-> Hit(L[i], q)])

--------------------------------------------------------------------------
\* Impl layer at hit level: what NetworkFilter::parse + check_options + check_pattern
\* compute, including the named deviations (known findings / adjudicated cases)

\* '|ws://', '|http://', '|https://', '|http*://' alone are folded into scheme bits
FoldKind(r) ==
  IF r.left # "pipe" \/ r.right THEN "none"
  ELSE LET b == Str(r.body) IN
       IF b \in {"ws://", "http://", "https://", "http*://"} THEN b ELSE "none"

ImplPatternHit(r, q) ==
  LET f == FoldKind(r) IN
  IF f = "ws://" THEN q.scheme \notin {"http", "https"}
  ELSE IF f = "http://" THEN q.scheme # "https"
  ELSE IF f = "https://" THEN q.scheme # "http"
  ELSE IF f = "http*://" THEN TRUE
  ELSE ImplMatch(Pat(r), q)

\* without a source hostname an inclusion list is never satisfied (fix 147b55d; before it the test was skipped and
\* the engine's answer depended on the bucket the rule was in); exclusions have nothing to exclude
ImplDomainOK(r, q) ==
  IF Len(q.src) = 0 THEN r.dom = {}
  ELSE LET sufs == {Str(x) : x \in HostSuffixes(q.src)} IN
       (r.dom = {} \/ sufs \cap r.dom # {}) /\ (sufs \cap r.ndom = {})

\* matcher level (NetworkMatchable::matches); does not test is_supported
\* folding '|ws://' also ORs the websocket type into the rule's type mask
ImplTypeOK(r, q) == TypeOK(r, q) \/ (FoldKind(r) = "ws://" /\ RType(q) = "websocket")

ImplHitM(r, q) ==
  ~r.badfilter /\ ImplTypeOK(r, q) /\ PartyOK(r, q) /\ ImplDomainOK(r, q) /\ ImplPatternHit(r, q)

DevHit(r, q) ==
  (IF FoldKind(r) = "ws://" /\ RType(q) = "websocket" /\ ~TypeOK(r, q) THEN {"wsFoldAddsWebsocketType"} ELSE {}) \cup
  (IF FoldKind(r) = "ws://" /\ q.scheme = "wss" THEN {"wsPatternMatchesWss"} ELSE {})
  \cup (IF FoldKind(r) \in {"http://", "https://"} /\ q.scheme \in {"ws", "wss"} THEN {"wsMatchesHttpOnlyRule"} ELSE {})
  \cup (IF FoldKind(r) = "none" THEN DevNames(Pat(r), q) ELSE {})

\* engine level: gated on is_supported; an http(s)-folded rule is indexed under the
\* scheme token, which a ws(s) URL never has, so that matcher deviation is masked
ImplHitE(r, q) ==
  /\ Supported(q) /\ ImplHitM(r, q)
  /\ ~(FoldKind(r) \in {"http://", "https://"} /\ q.scheme \in {"ws", "wss"})

DevsE(L, q) == UNION {DevHit(L[i], q) \ {"wsMatchesHttpOnlyRule"} : i \in DOMAIN L}
ModelVerdicts(L, T, Res, q) == VerdictsFor(L, [i \in DOMAIN L |-> ImplHitE(L[i], q)], T, Res, q)
ModelCsp(L, T, q) == CspFor(L, [i \in DOMAIN L |-> ImplHitE(L[i], q)], T, q)
=============================================================================
