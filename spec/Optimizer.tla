----------------------------- MODULE Optimizer -----------------------------
(***************************************************************************)
(* Impl layer of rule storage and optimisation (C05, and the exact form of  *)
(* the index behind C01):                                                   *)
(*                                                                         *)
(*   Blocker::new        sorts the rules of a list into category lists      *)
(*   NetworkFilterList::new  puts every rule of a category list into ONE     *)
(*                       bucket: that of its rarest token (histogram over    *)
(*                       the whole category list, first minimum wins; the    *)
(*                       tokens http/https/www/com count as most frequent)   *)
(*   optimizer::optimize fuses, inside one bucket, the selectable rules      *)
(*                       with the same grouping key into one rule whose      *)
(*                       pattern is the alternation of the members' patterns *)
(*                       and whose options are those of the FIRST member.    *)
(*                                                                         *)
(* Design property checked by TLC (FuseSound): a fused rule hits a request   *)
(* exactly when one of its members does, whichever member supplies the       *)
(* options.  That holds iff the grouping key determines every option the     *)
(* matcher reads - the deviation switch DevKeyIgnoresTag (the key of the     *)
(* pinned tree, before fix 30ecc0b) breaks it.                               *)
(* Binding: the groups are observable on a debug-mode engine - the matched   *)
(* rule text of a fused rule is 'a <+> b <+> c'.                             *)
(* anchors: src/blocker.rs:429-520, src/network_filter_list.rs:19-98,248-267,*)
(*          src/optimizer.rs:14-137, src/filters/network.rs:889-962          *)
(***************************************************************************)
EXTENDS Tokens

CONSTANT DevKeyIgnoresTag

--------------------------------------------------------------------------
\* ordered tokens (the bucket choice breaks ties by position)
RECURSIVE TokSeqFrom(_, _, _, _)
TokSeqFrom(cs, i, skipFirst, skipLast) ==
  IF i > Len(cs) THEN <<>>
  ELSE IF ~IsTokenChar(cs[i]) THEN TokSeqFrom(cs, i + 1, skipFirst, skipLast)
  ELSE LET e == RunEnd(cs, i)
           keep == /\ e - i > 1
                   /\ (i # 1 \/ ~skipFirst)
                   /\ (i = 1 \/ cs[i - 1] # "*")
                   /\ IF e > Len(cs) THEN ~skipLast ELSE cs[e] # "*"
       IN (IF keep THEN <<Str(Sub(cs, i, e - 1))>> ELSE <<>>) \o TokSeqFrom(cs, e, skipFirst, skipLast)
TokenizeSeq(cs, skipFirst, skipLast) == TokSeqFrom(cs, 1, skipFirst, skipLast)


\* get_tokens: the token groups of a rule, each an ordered sequence
RuleTokenSeqs(r) ==
  LET x == Extract(Pat(r))
      fold == FoldKind(r)
      fromHttp == fold \notin {"ws://", "https://"}
      fromHttps == fold \notin {"ws://", "http://"}
      domTok == IF Cardinality(r.dom) = 1 /\ r.ndom = {} THEN <<CHOOSE d \in r.dom : TRUE>> ELSE <<>>
      filt == IF fold # "none" THEN <<>> ELSE x.filter
      filtTok == TokenizeSeq(filt, ~x.left, ~x.right)
      hostTok == IF x.hostAnchor /\ ~x.hostRegex THEN TokenizeSeq(x.hostname, FALSE, FALSE) ELSE <<>>
      base == domTok \o filtTok \o hostTok
      rp == IF base = <<>> /\ r.mkind = "removeparam" THEN TokenizeSeq(LowerS(Chars(r.mval)), FALSE, FALSE) ELSE <<>>
      toks == base \o rp
      scheme == IF fromHttp /\ ~fromHttps THEN <<"http">> ELSE IF fromHttps /\ ~fromHttp THEN <<"https">> ELSE <<>> IN
  IF toks = <<>> /\ r.dom # {} /\ r.ndom = {} THEN {<<d>> : d \in r.dom}
  ELSE {toks \o scheme}

\* the ordered and the unordered view agree (Tokens.RuleTokenGroups is what C01's safety argument uses)
TokenViewsAgree(r) == {SeqToSet(s) : s \in RuleTokenSeqs(r)} = RuleTokenGroups(r)

--------------------------------------------------------------------------
\* category lists of Blocker::new (tagged rules live in `tagged` only while their tag is enabled)
Cat(r) ==
  IF r.mkind = "csp" THEN "csp"
  ELSE IF r.mkind = "removeparam" THEN "rp"
  ELSE IF r.ghide THEN "gh"
  ELSE IF r.exc THEN "exc"
  ELSE IF r.important THEN "imp"
  ELSE IF r.tag # "" /\ ~IsRedirect(r) THEN "tagged"
  ELSE IF r.mkind = "redirect-rule" THEN "none"      \* only in the redirect list
  ELSE "filters"
Cats == {"csp", "rp", "gh", "exc", "imp", "tagged", "filters"}

\* indices of the rules of list l that are stored in category c under enabled tags tg, in list order
Stored(l, tg, c) ==
  SelectSeq([i \in DOMAIN l |-> i],
            LAMBDA i : /\ ~l[i].badfilter
                       /\ ~\E z \in DOMAIN l : Cancels(l[z], l[i])
                       /\ Cat(l[i]) = c
                       /\ (c = "tagged" => l[i].tag \in tg))

\* token histogram of a category list; the four very common tokens count as the total
BadTokens == {"http", "https", "www", "com"}
AllTokenOccurrences(l, idx) ==   \* sequence of all token occurrences
  LET RECURSIVE Cat2(_)
      Cat2(k) == IF k > Len(idx) THEN <<>>
                 ELSE LET RECURSIVE Flat(_)
                          Flat(S) == IF S = {} THEN <<>> ELSE LET s == CHOOSE x \in S : TRUE IN s \o Flat(S \ {s})
                      IN Flat(RuleTokenSeqs(l[idx[k]])) \o Cat2(k + 1)
  IN Cat2(1)
Count(occ, t) == Cardinality({j \in DOMAIN occ : occ[j] = t})
HistCount(occ, t) == IF t \in BadTokens THEN Len(occ) ELSE Count(occ, t)

\* the bucket of one token group: first token with the strictly smallest count; "" = the fallback bucket
RECURSIVE BestFrom(_, _, _, _, _)
BestFrom(occ, toks, k, best, minc) ==
  IF k > Len(toks) THEN best
  ELSE LET c == HistCount(occ, toks[k]) IN
       IF c < minc THEN BestFrom(occ, toks, k + 1, toks[k], c) ELSE BestFrom(occ, toks, k + 1, best, minc)
BucketOfGroup(occ, toks) == BestFrom(occ, toks, 1, "", Len(occ) + 1)

\* buckets a stored rule is filed under (several only for tokenless $domain= rules)
BucketsOf(l, idx, i) == LET occ == AllTokenOccurrences(l, idx) IN {BucketOfGroup(occ, s) : s \in RuleTokenSeqs(l[i])}

--------------------------------------------------------------------------
\* optimizer::SimplePatternGroup
Selectable(r) == r.dom = {} /\ r.ndom = {} /\ r.left # "dpipe" /\ ~IsRedirect(r) /\ r.mkind # "csp"

\* the grouping key: the option mask as parse computes it (type mask, party, scheme folding, anchors and
\* regex-ness of the extracted filter, category bits), complete-regex-ness, and the tag
FuseKey(r) ==
  LET x == Extract(Pat(r)) IN
  [types |-> AllowedTypes(r), party |-> r.party, fold |-> FoldKind(r), left |-> x.left, right |-> x.right,
   \* the regex bit is recomputed from the extracted filter text only when that text is not empty; a
   \* pattern-less rule written '*' keeps the bit its '*' gave it
   regex |-> (IF Len(x.filter) > 0 THEN x.regex ELSE HasRegexChar(r.body)), exc |-> r.exc, important |-> r.important, ghide |-> r.ghide, badfilter |-> r.badfilter,
   mkind |-> r.mkind, explicitTypes |-> (r.pos # {} \/ r.neg # {}),
   tag |-> IF DevKeyIgnoresTag THEN "" ELSE r.tag]

\* category lists that are optimised (removeparam never is)
Optimised(c) == c # "rp"

\* the fuse groups of category c: sets of list indices, each of at least two rules
FuseGroups(l, tg, c) ==
  IF ~Optimised(c) THEN {}
  ELSE LET idx == Stored(l, tg, c)
           S == SeqToSet(idx)
           sel == {i \in S : Selectable(l[i])}
           bucket(i) == CHOOSE b \in BucketsOf(l, idx, i) : TRUE      \* selectable rules have one bucket
           classOf(i) == {j \in sel : bucket(j) = bucket(i) /\ FuseKey(l[j]) = FuseKey(l[i])}
       IN {classOf(i) : i \in sel} \ {G \in {classOf(i) : i \in sel} : Cardinality(G) < 2}

AllFuseGroups(l, tg) == UNION {FuseGroups(l, tg, c) : c \in Cats}

\* check_pattern for a rule that is not hostname anchored, given the extracted filter text and the
\* anchor / regex flags of the mask
FilterHit(f, left, right, regex, url) ==
  IF regex THEN RegexFind(f, left, right, url)
  ELSE IF Len(f) = 0 THEN TRUE
  ELSE IF left /\ right THEN url = f
  ELSE IF left THEN IsPrefixOf(f, url)
  ELSE IF right THEN IsSuffixOf(f, url)
  ELSE Contains(f, url)

\* what the fused rule of group G computes for request q when member b supplies mask and options: the
\* alternation of the members' filter texts under b's anchor and regex flags
FusedHit(l, G, b, q) ==
  LET xb == Extract(Pat(l[b])) IN
  /\ ~l[b].badfilter /\ ImplTypeOK(l[b], q) /\ PartyOK(l[b], q)
  /\ IF FoldKind(l[b]) # "none" THEN ImplPatternHit(l[b], q)
     ELSE \E i \in G : FilterHit(Extract(Pat(l[i])).filter, xb.left, xb.right, xb.regex, LowerS(q.url))
\* ... and whether it is active under tags tg: it carries the tag of b
FusedActive(l, b, tg) == Active(l[b], tg)

\* C05 (M1): fusing changes no hit, whichever member is first
FuseSound(l, tg, reqs) ==
  \A G \in AllFuseGroups(l, tg) : \A b \in G : \A q \in DOMAIN reqs :
     (FusedActive(l, b, tg) /\ FusedHit(l, G, b, reqs[q]))
        = (\E i \in G : Active(l[i], tg) /\ ImplHitM(l[i], reqs[q]))
=============================================================================
