------------------------------ MODULE Options ------------------------------
(***************************************************************************)
(* From option TEXT to the rule AST (the reverse direction of               *)
(* Net!RuleText): which option spellings the parser accepts, what each one   *)
(* does to the rule, and which combinations are refused.                     *)
(*                                                                         *)
(*   token  = [name, neg, val]   written  ~name=val                          *)
(*   Fold the tokens left to right over a parse state; Finish applies the    *)
(*   whole-rule checks.  The result is either "rejected" or a Net rule       *)
(*   record, whose meaning is Net!Hit / VerdictsFor as for every other rule. *)
(* anchors: src/filters/abstract_network.rs:153-262 (parse_filter_options),  *)
(*          src/filters/network.rs:409-432 (validate_options), 443-620,      *)
(*          776-782 (whole-rule checks)                                      *)
(***************************************************************************)
EXTENDS Net

Tok(n, ng, v) == [name |-> n, neg |-> ng, val |-> v]
TokText(t) == (IF t.neg THEN "~" ELSE "") \o t.name \o (IF t.val = "" THEN "" ELSE "=" \o t.val)

TypeAlias(n) ==
  CASE n = "object-subrequest" -> "object" [] n = "beacon" -> "ping" [] n = "css" -> "stylesheet"
    [] n = "frame" -> "subdocument" [] n = "xhr" -> "xmlhttprequest" [] OTHER -> n
IsTypeName(n) == TypeAlias(n) \in NetTypes

\* domain=a|~b|/re/ : regex entries are dropped; nothing left = refused
DomEntries(v) == SeqToSet([i \in DOMAIN Split(Chars(v), "|") |-> Str(Split(Chars(v), "|")[i])])
IsRegexEntry(e) == Len(e) >= 2 /\ SubSeq(e, 1, 1) = "/" /\ SubSeq(e, Len(e), Len(e)) = "/"
PlainEntries(v) == {e \in DomEntries(v) : ~IsRegexEntry(e)}
PosDomains(v) == {e \in PlainEntries(v) : SubSeq(e, 1, 1) # "~"}
NegDomains(v) == {SubSeq(e, 2, Len(e)) : e \in {x \in PlainEntries(v) : SubSeq(x, 1, 1) = "~"}}

ValidParam(v) == Len(v) > 0 /\ \A i \in 1..Len(v) : IsAlnum(SubSeq(v, i, i)) \/ SubSeq(v, i, i) \in {"_", "-"}

\* parse state: the rule under construction plus what the whole-rule checks need
S0(base) == [ok |-> TRUE, r |-> base, fp |-> TRUE, tp |-> TRUE, nmod |-> 0, hasType |-> FALSE, hasCsp |-> FALSE, matchcase |-> FALSE]
Reject(s) == [s EXCEPT !.ok = FALSE]

Step(s, t) ==
  LET n == t.name IN
  IF ~s.ok THEN s
  ELSE IF n \in {"domain", "from"} THEN
       IF PlainEntries(t.val) = {} THEN Reject(s)
       ELSE [s EXCEPT !.r.dom = IF PosDomains(t.val) = {} THEN @ ELSE PosDomains(t.val),
                      !.r.ndom = IF NegDomains(t.val) = {} THEN @ ELSE NegDomains(t.val)]
  ELSE IF n \in {"badfilter", "important", "match-case", "tag", "redirect", "redirect-rule", "removeparam",
                 "generichide", "ghide", "document", "doc"} /\ t.neg THEN Reject(s)
  ELSE IF n = "badfilter" THEN [s EXCEPT !.r.badfilter = TRUE]
  ELSE IF n = "important" THEN [s EXCEPT !.r.important = TRUE]
  ELSE IF n = "match-case" THEN [s EXCEPT !.matchcase = TRUE]
  ELSE IF n \in {"third-party", "3p"} THEN (IF t.neg THEN [s EXCEPT !.tp = FALSE] ELSE [s EXCEPT !.fp = FALSE])
  ELSE IF n \in {"first-party", "1p"} THEN (IF t.neg THEN [s EXCEPT !.fp = FALSE] ELSE [s EXCEPT !.tp = FALSE])
  ELSE IF n = "tag" THEN [s EXCEPT !.r.tag = t.val]
  ELSE IF n \in {"redirect", "redirect-rule"} THEN
       IF t.val = "" THEN Reject(s) ELSE [s EXCEPT !.r.mkind = n, !.r.mval = t.val, !.nmod = @ + 1]
  ELSE IF n = "csp" THEN [s EXCEPT !.r.mkind = "csp", !.r.mval = t.val, !.nmod = @ + 1, !.hasCsp = TRUE]
  ELSE IF n = "removeparam" THEN
       IF ~ValidParam(t.val) THEN Reject(s) ELSE [s EXCEPT !.r.mkind = "removeparam", !.r.mval = t.val, !.nmod = @ + 1]
  ELSE IF n \in {"generichide", "ghide"} THEN [s EXCEPT !.r.ghide = TRUE]
  ELSE IF n \in {"document", "doc"} THEN [s EXCEPT !.r.pos = @ \cup {"document"}, !.hasType = TRUE]
  ELSE IF IsTypeName(n) THEN
       IF t.neg THEN [s EXCEPT !.r.neg = @ \cup {TypeAlias(n)}, !.hasType = TRUE]
       ELSE [s EXCEPT !.r.pos = @ \cup {TypeAlias(n)}, !.hasType = TRUE]
  ELSE Reject(s)      \* unrecognised option (also the empty token of '$a,,b' and '$a,')

RECURSIVE Fold(_, _, _)
Fold(s, toks, i) == IF i > Len(toks) THEN s ELSE Fold(Step(s, toks[i]), toks, i + 1)

\* whole-rule checks; base: the rule without options (pattern, anchors, exception flag)
ParseOptions(base, toks) ==
  LET s == Fold(S0(base), toks, 1)
      party == IF s.fp /\ s.tp THEN "any" ELSE IF s.tp THEN "3p" ELSE IF s.fp THEN "1p" ELSE "none" IN
  IF ~s.ok THEN [ok |-> FALSE, r |-> base]
  ELSE IF s.hasCsp /\ s.hasType THEN [ok |-> FALSE, r |-> base]
  ELSE IF s.nmod > 1 THEN [ok |-> FALSE, r |-> base]
  ELSE IF s.matchcase THEN [ok |-> FALSE, r |-> base]                  \* only full-regex rules may be case sensitive
  ELSE IF s.r.ghide /\ ~base.exc THEN [ok |-> FALSE, r |-> base]
  ELSE IF s.r.mkind = "removeparam" /\ base.exc THEN [ok |-> FALSE, r |-> base]
  ELSE [ok |-> TRUE, r |-> [s.r EXCEPT !.party = party]]

OptRuleText(base, toks) ==
  RuleText(base) \o "$" \o JoinStr([i \in DOMAIN toks |-> TokText(toks[i])], ",")
=============================================================================
