------------------------------ MODULE Pattern ------------------------------
(***************************************************************************)
(* C02: what a network rule's pattern part means (Ideal), and what the nine *)
(* specialised matcher paths + the regex translation of the code do (Impl). *)
(* anchors: src/filters/network_matchers.rs, src/regex_manager.rs:167-237,  *)
(*          src/filters/network.rs:601-753                                  *)
(*                                                                         *)
(* pattern  = [left \in {"none","pipe","dpipe"}, body \in Seq(Char),        *)
(*             right \in BOOLEAN]                                           *)
(* request  = [url \in Seq(Char), hs, he \in Nat]  host = url[hs..he]       *)
(*            (url lower-cased by the caller when the rule is not           *)
(*            match-case; C02 quantifies over lower-case hosts)            *)
(***************************************************************************)
EXTENDS Strs

--------------------------------------------------------------------------
\* Ideal layer

\* body[i..] matches url starting exactly at j; if `right` the match must end
\* at the end of the url, otherwise it may end anywhere.
RECURSIVE M(_, _, _, _, _)
M(body, i, url, j, right) ==
  IF i > Len(body) THEN (~right \/ j = Len(url) + 1)
  ELSE LET c == body[i] IN
    IF c = "*" THEN \E k \in j..(Len(url) + 1) : M(body, i + 1, url, k, right)
    ELSE IF c = "^" THEN
         \/ (j <= Len(url) /\ IsSep(url[j]) /\ M(body, i + 1, url, j + 1, right))
         \/ (i = Len(body) /\ j = Len(url) + 1)          \* end of URL, only when '^' is last
    ELSE j <= Len(url) /\ LowerC(url[j]) = LowerC(c) /\ M(body, i + 1, url, j + 1, right)

\* end positions variant: set of url positions right after a match of body[i..k]
\* (used to know where the host part of a ||-pattern ended)
HostPartLen(body) ==
  LET bad == {i \in 1..Len(body) : IsSep(body[i]) \/ body[i] = "*"} IN
  IF bad = {} THEN Len(body) ELSE Min(bad) - 1

LabelStarts(req) == {req.hs} \cup {i + 1 : i \in {k \in req.hs..req.he : req.url[k] = "."}}

\* the host part (literal) sits at p
HostPartAt(body, req, p) ==
  LET n == HostPartLen(body) IN
  /\ p + n - 1 <= req.he
  /\ \A k \in 1..n : LowerC(req.url[p + k - 1]) = LowerC(body[k])

\* strict reading: host part is the request hostname or a parent domain of it
\* (a suffix of the hostname starting at a label boundary); remainder matches
\* directly after the hostname
StrictDpipe(pat, req) ==
  LET n == HostPartLen(pat.body) IN
  \E p \in LabelStarts(req) :
     /\ HostPartAt(pat.body, req, p)
     /\ p + n - 1 = req.he
     /\ M(pat.body, n + 1, req.url, req.he + 1, pat.right)

\* lenient reading (ABP/uBO): the pattern matches from a label start, and the
\* host part ends at a label boundary (end of hostname, before a '.', itself
\* ends in '.', or is followed by a wildcard in the pattern)
LenientDpipe(pat, req) ==
  LET n == HostPartLen(pat.body)
      starts == LabelStarts(req) \cup
                (IF n > 0 /\ pat.body[1] = "." THEN {k \in req.hs..req.he : req.url[k] = "."} ELSE {}) IN
  \E p \in starts :
     /\ HostPartAt(pat.body, req, p)
     /\ \/ p + n - 1 = req.he
        \/ req.url[p + n] = "."
        \/ (n > 0 /\ pat.body[n] = ".")
        \/ (n < Len(pat.body) /\ pat.body[n + 1] = "*")
        \/ n = 0
     /\ M(pat.body, n + 1, req.url, p + n, pat.right)

\* three-valued result as the set of allowed booleans
\* Adjudication (DESIGN.md, log): for '||host|' (nothing after the host part) the
\* statement's "'|' pins the end of the URL" would make the rule unmatchable for any
\* URL with a non-empty path, while the repository pins "||foo.com|" matching
\* https://foo.com (tests/unit/filters/network_matchers.rs:205) and treats it as
\* "hostname ends here".  Both readings are permitted: unspecified when the
\* host part is a label-aligned suffix of the hostname.
IdealMatch(pat, req) ==
  IF pat.left = "dpipe" /\ pat.right /\ HostPartLen(pat.body) = Len(pat.body) THEN
       LET p0 == [pat EXCEPT !.right = FALSE] IN
       IF StrictDpipe(pat, req) THEN {TRUE}
       ELSE IF StrictDpipe(p0, req) THEN {TRUE, FALSE}
       ELSE {FALSE}
  ELSE IF pat.left = "dpipe" THEN
       IF StrictDpipe(pat, req) THEN {TRUE}
       ELSE IF LenientDpipe(pat, req) THEN {TRUE, FALSE}
       ELSE {FALSE}
  ELSE IF pat.left = "pipe" THEN {M(pat.body, 1, req.url, 1, pat.right)}
  ELSE {\E j \in 1..(Len(req.url) + 1) : M(pat.body, 1, req.url, j, pat.right)}

\* spellings the property's quantifier excludes from the exact-match clause
Degenerate(pat) ==
  LET b == pat.body n == Len(pat.body) IN
  \/ n = 0
  \/ b[1] = "*" \/ b[n] = "*"
  \/ \E i \in 1..(n - 1) : (b[i] = "*" /\ b[i + 1] = "*") \/ (b[i] = "^" /\ b[i + 1] = "^")
  \/ (n > 1 /\ b[1] = "/" /\ b[n] = "/")
  \/ (pat.left = "dpipe" /\ pat.right /\ b[n] = "^")
  \/ (pat.left = "dpipe" /\ pat.right /\ HostPartLen(b) < n /\ b[HostPartLen(b) + 1] = "*")
  \/ \E i \in 1..n : b[i] = "\\"
  \/ (pat.left = "dpipe" /\ (HostPartLen(b) = 0 \/ b[1] = "."))
  \/ (pat.left # "none" /\ b[1] = "|") \/ (pat.right /\ b[n] = "|")

--------------------------------------------------------------------------
\* Impl layer: NetworkFilter::parse flag extraction + check_pattern paths

HasRegexChar(s) == \E i \in 1..Len(s) : s[i] \in {"*", "^"}

\* parse-time extraction for a lower-case, non-complete-regex pattern
\* returns [hostAnchor, left, right, regex, hostRegex, hostname, filter]
Extract(pat) ==
  LET b == pat.body
      n == Len(b)
      dp == pat.left = "dpipe"
      isRe == HasRegexChar(b)
      \* hostname split
      sepIdx == LET S == {i \in 1..n : b[i] \in {"/", "^", "*"}} IN IF S = {} THEN 0 ELSE Min(S)
      slashIdx == FirstChar("/", b)
      split == IF ~dp THEN 0
               ELSE IF isRe THEN sepIdx ELSE slashIdx     \* 0 = whole body is hostname
      hostname == IF ~dp THEN <<>> ELSE IF split = 0 THEN b ELSE Sub(b, 1, split - 1)
      fs0 == IF ~dp THEN 1 ELSE IF split = 0 THEN n + 1 ELSE split
      hostRegex == dp /\ isRe /\ sepIdx > 0 /\ b[sepIdx] = "*"
      onlyCaret == dp /\ isRe /\ sepIdx > 0 /\ (n + 1 - fs0 = 1) /\ b[fs0] = "^"
      fs1 == IF onlyCaret THEN n + 1 ELSE fs0
      right1 == pat.right \/ onlyCaret
      left1 == IF dp THEN (IF onlyCaret THEN FALSE ELSE split > 0) ELSE pat.left = "pipe"
      \* remove trailing '*'
      fe == IF n + 1 > fs1 /\ n > 0 /\ b[n] = "*" THEN n ELSE n + 1      \* exclusive end
      \* remove leading '*'
      lead == fe > fs1 /\ b[fs1] = "*"
      fs2 == IF lead THEN fs1 + 1 ELSE fs1
      left2 == IF lead THEN FALSE ELSE left1
      filt == Sub(b, fs2, fe - 1)
  IN [hostAnchor |-> dp, left |-> left2, right |-> right1,
      regex |-> HasRegexChar(filt), hostRegex |-> hostRegex,
      hostname |-> LowerS(hostname), filter |-> LowerS(filt)]

\* compile_regex as a pattern over the same tiny language: after the escaping
\* steps the compiled regex of a non-complete filter is exactly the body with
\* '*' = any run, '^' followed by a char = one separator, final '^' = separator
\* or end; anchors as flags; searched (unanchored) unless left.
RegexFind(filt, left, right, s) ==
  IF left THEN M(filt, 1, s, 1, right)
  ELSE \E j \in 1..(Len(s) + 1) : M(filt, 1, s, j, right)

\* is_anchored_by_hostname (first memmem occurrence only)
AnchoredByHostname(fh, h, wildcard) ==
  LET fl == Len(fh) hl == Len(h) IN
  IF fl = 0 THEN TRUE
  ELSE IF fl > hl THEN FALSE
  ELSE IF fl = hl THEN fh = h
  ELSE LET mi == FirstIndexOf(fh, h) IN      \* 1-based; 0 = none
    IF mi = 0 THEN FALSE
    ELSE IF mi = 1 THEN wildcard \/ fh[fl] = "." \/ h[fl + 1] = "."
    ELSE IF mi = hl - fl + 1 THEN fh[1] = "." \/ h[mi - 1] = "."
    ELSE /\ (wildcard \/ fh[fl] = "." \/ h[mi + fl] = ".")
         /\ (fh[1] = "." \/ h[mi - 1] = ".")

\* get_url_after_hostname: after the first textual occurrence in the URL
UrlAfterHostname(url, hn) ==
  LET i == FirstIndexOf(hn, url) IN
  IF i = 0 THEN <<>> ELSE From(url, i + Len(hn))

\* a left-anchored pattern that is exactly a scheme prefix is folded into scheme bits + empty filter
SchemeFold(pat) == IF pat.left = "pipe" /\ Str(LowerS(pat.body)) \in {"http://", "https://", "ws://", "http*://"}
                   THEN Str(LowerS(pat.body)) ELSE "none"
UrlScheme(req) == LET c == FirstChar(":", req.url) IN IF c = 0 THEN "" ELSE Str(LowerS(Sub(req.url, 1, c - 1)))

ImplMatch(pat, req) ==
  IF SchemeFold(pat) # "none" THEN
     LET sc == UrlScheme(req) f == SchemeFold(pat) IN
     IF f = "http://" THEN sc # "https" ELSE IF f = "https://" THEN sc # "http"
     ELSE IF f = "ws://" THEN sc \notin {"http", "https"} ELSE TRUE
  ELSE
  LET x == Extract(pat)
      url == LowerS(req.url)
      host == LowerS(Sub(req.url, req.hs, req.he))
      f == x.filter
      empty == Len(f) = 0
  IN
  IF x.hostAnchor THEN
    IF ~AnchoredByHostname(x.hostname, host, x.hostRegex) THEN FALSE
    ELSE IF x.regex THEN
      LET i == FirstIndexOf(x.hostname, url)
          start == (IF i = 0 THEN 1 ELSE i) + Len(x.hostname) IN
      RegexFind(f, x.left, x.right, From(url, start))
    ELSE IF x.right /\ x.left THEN empty \/ UrlAfterHostname(url, x.hostname) = f
    ELSE IF x.right THEN
      IF empty THEN Len(host) = Len(x.hostname) \/ IsSuffixOf(x.hostname, host)
      ELSE IsSuffixOf(f, url)
    ELSE IF x.left THEN empty \/ IsPrefixOf(f, UrlAfterHostname(url, x.hostname))
    ELSE empty \/ Contains(f, UrlAfterHostname(url, x.hostname))
  ELSE IF x.regex THEN RegexFind(f, x.left, x.right, url)
  ELSE IF x.left /\ x.right THEN empty \/ url = f
  ELSE IF x.left THEN empty \/ IsPrefixOf(f, url)
  ELSE IF x.right THEN empty \/ IsSuffixOf(f, url)
  ELSE empty \/ Contains(f, url)
\* --- named deviations of the Impl layer (DESIGN.md section 9) --------------
\* anchorFirstOccurrence: the anchor text occurs more than once in the
\*   hostname or in the URL and the code only looks at the first occurrence
\* portInsideAnchorHost: the ||host part of a plain pattern swallows ':'
DevNames(p, q) ==
  IF SchemeFold(p) # "none" THEN
     (IF p.right THEN {"schemeFoldIgnoresRightAnchor"} ELSE {})
     \cup (IF SchemeFold(p) = "ws://" /\ UrlScheme(q) = "wss" THEN {"wsPatternMatchesWss"} ELSE {})
     \cup (IF SchemeFold(p) \in {"http://", "https://"} /\ UrlScheme(q) \in {"ws", "wss"} THEN {"wsMatchesHttpOnlyRule"} ELSE {})
  ELSE
  LET x == Extract(p)
      u == LowerS(q.url)
      host == LowerS(Sub(q.url, q.hs, q.he)) IN
  IF p.left # "dpipe" THEN {}
  ELSE (IF Len(x.hostname) > 0 /\
           (Cardinality(Occurrences(x.hostname, host)) > 1
            \/ (FirstIndexOf(x.hostname, u) # 0 /\ FirstIndexOf(x.hostname, u) < q.hs))
        THEN {"anchorFirstOccurrence"} ELSE {})
       \cup (IF \E i \in 1..Len(x.hostname) : x.hostname[i] = ":" THEN {"portInsideAnchorHost"} ELSE {})

=============================================================================
