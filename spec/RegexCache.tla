----------------------------- MODULE RegexCache -----------------------------
(***************************************************************************)
(* The compiled-regex cache (src/regex_manager.rs) as a state machine.      *)
(*                                                                         *)
(* C06 says that no answer depends on "compiled-regex caching or            *)
(* discarding, on elapsed time".  The cache is the only component of the    *)
(* engine whose state changes on a *query* and with the *clock*, so this    *)
(* module models exactly that state:                                        *)
(*                                                                         *)
(*   cache[k]   absent | compiled | discarded, time of last use, use count  *)
(*   count      number of compilations so far (never decreases)             *)
(*   now        the manager's notion of the current time (refreshed by      *)
(*              update_time at the start of EVERY borrow of the manager -   *)
(*              queries, policy changes, discards, even the debug report)   *)
(*   lastCleanup, policy = (interval, unused)                                *)
(*                                                                         *)
(* Time is an interval [lo, hi]: a driver that records a real run only      *)
(* knows that the manager read the clock somewhere between two of its own   *)
(* clock readings.  Comparisons against the policy are therefore three-     *)
(* valued and an uncertain comparison allows both outcomes, which keeps     *)
(* trace validation free of timing false alarms.  The model checker uses    *)
(* degenerate intervals (lo = hi = tick).                                   *)
(*                                                                         *)
(* The operators are functional (state record in, SET of possible state     *)
(* records out) so that the trace spec can run the subset construction.     *)
(* anchors: src/regex_manager.rs:242-331, src/blocker.rs:122-142,535,638    *)
(***************************************************************************)
EXTENDS Integers, FiniteSets, Sequences

CONSTANTS Keys              \* the regex rules of the engine (1..n)

Iv(lo, hi) == [lo |-> lo, hi |-> hi]
At(t) == Iv(t, t)
\* is a - b >= d ?   (a, b intervals)
Elapsed(a, b, d) == IF a.lo - b.hi >= d THEN "yes" ELSE IF a.hi - b.lo < d THEN "no" ELSE "maybe"
Outcomes(tri) == IF tri = "yes" THEN {TRUE} ELSE IF tri = "no" THEN {FALSE} ELSE BOOLEAN

DefaultPolicy == [interval |-> 30000000, unused |-> 180000000]     \* 30 s / 180 s in microseconds
Absent == [st |-> "absent", last |-> At(0), uses |-> 0]

Fresh(t) == [cache |-> [k \in Keys |-> Absent], count |-> 0, now |-> t, lastCleanup |-> t,
             policy |-> DefaultPolicy]

\* cleanup(): every compiled entry not used for `unused` is discarded
CleanupChoices(m, t, k) ==
  LET e == m.cache[k] IN
  IF e.st # "compiled" THEN {e}
  ELSE {IF gone THEN [e EXCEPT !.st = "discarded"] ELSE e : gone \in Outcomes(Elapsed(t, e.last, m.policy.unused))}

Cleanups(m, t) ==
  LET all == UNION {CleanupChoices(m, t, k) : k \in Keys} IN
  {c \in [Keys -> all] : \A k \in Keys : c[k] \in CleanupChoices(m, t, k)}

\* update_time(): refresh `now`; when a cleanup is due, run it
UpdateTime(m, t) ==
  LET due == IF m.policy.interval = 0 THEN "no" ELSE Elapsed(t, m.lastCleanup, m.policy.interval) IN
  UNION { IF run THEN {[m EXCEPT !.now = t, !.lastCleanup = t, !.cache = c] : c \in Cleanups(m, t)}
          ELSE {[m EXCEPT !.now = t]} : run \in Outcomes(due) }

\* matches() on the regex of rule k: compile on first use or after a discard, count the use
Match1(m, k) ==
  LET e == m.cache[k] IN
  [m EXCEPT !.cache[k] = [st |-> "compiled", last |-> m.now, uses |-> e.uses + 1],
            !.count = IF e.st = "compiled" THEN @ ELSE @ + 1]

RECURSIVE MatchAll(_, _)
MatchAll(m, S) == IF S = {} THEN m ELSE LET k == CHOOSE x \in S : TRUE IN MatchAll(Match1(m, k), S \ {k})

\* one query evaluating the regexes of the rules in S (the manager is borrowed for the whole query)
Check(m, t, S) == {MatchAll(u, S) : u \in UpdateTime(m, t)}
\* set_regex_discard_policy: the borrow refreshes the clock under the OLD policy first
SetPolicy(m, t, p) == {[u EXCEPT !.policy = p] : u \in UpdateTime(m, t)}
\* discard_regex(id)
Discard(m, t, k) == {[u EXCEPT !.cache[k].st = IF @ = "compiled" THEN "discarded" ELSE @] : u \in UpdateTime(m, t)}
\* use_tags / enable_tags / disable_tags / optimize: the rules may move, the cache is emptied (fix 33f3d37)
Clear(m, t) == {[u EXCEPT !.cache = [k \in Keys |-> Absent]] : u \in UpdateTime(m, t)}
\* get_regex_debug_info also borrows the manager
Observe(m, t) == UpdateTime(m, t)

\* what the debug report shows
Projection(m) == [st |-> [k \in Keys |-> m.cache[k].st], uses |-> [k \in Keys |-> m.cache[k].uses], count |-> m.count]

=============================================================================
