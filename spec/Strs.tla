------------------------------- MODULE Strs -------------------------------
(***************************************************************************)
(* Character-level strings.  A string is a sequence of one-character TLA+  *)
(* strings (<<"a","d","s">>); TLC cannot index into a TLA+ string and every *)
(* property of adblock-rust is about positions inside strings.             *)
(* anchors: src/utils.rs (token classes), src/regex_manager.rs (separator) *)
(***************************************************************************)
EXTENDS Naturals, Sequences, FiniteSets

LowerLetters == {"a","b","c","d","e","f","g","h","i","j","k","l","m",
                 "n","o","p","q","r","s","t","u","v","w","x","y","z"}
UpperLetters == {"A","B","C","D","E","F","G","H","I","J","K","L","M",
                 "N","O","P","Q","R","S","T","U","V","W","X","Y","Z"}
Digits == {"0","1","2","3","4","5","6","7","8","9"}

UpperToLower ==
  [c \in UpperLetters |->
     CASE c = "A" -> "a" [] c = "B" -> "b" [] c = "C" -> "c" [] c = "D" -> "d"
       [] c = "E" -> "e" [] c = "F" -> "f" [] c = "G" -> "g" [] c = "H" -> "h"
       [] c = "I" -> "i" [] c = "J" -> "j" [] c = "K" -> "k" [] c = "L" -> "l"
       [] c = "M" -> "m" [] c = "N" -> "n" [] c = "O" -> "o" [] c = "P" -> "p"
       [] c = "Q" -> "q" [] c = "R" -> "r" [] c = "S" -> "s" [] c = "T" -> "t"
       [] c = "U" -> "u" [] c = "V" -> "v" [] c = "W" -> "w" [] c = "X" -> "x"
       [] c = "Y" -> "y" [] c = "Z" -> "z"]

LowerC(c) == IF c \in UpperLetters THEN UpperToLower[c] ELSE c
LowerS(s) == [i \in 1..Len(s) |-> LowerC(s[i])]

IsAlnum(c) == c \in LowerLetters \cup UpperLetters \cup Digits
\* token characters of the request/rule tokenizer (utils.rs is_allowed_filter), ASCII part
IsTokenChar(c) == IsAlnum(c) \/ c = "%"
\* ABP separator: anything but a letter, a digit, or one of _ - . %
IsSep(c) == ~(IsAlnum(c) \/ c \in {"_", "-", ".", "%"})

\* s[i..j] (empty when j < i)
Sub(s, i, j) == IF j < i THEN <<>> ELSE SubSeq(s, i, j)
From(s, i) == Sub(s, i, Len(s))

\* p occurs in s starting at position i
OccursAt(p, s, i) ==
  /\ i >= 1
  /\ i + Len(p) - 1 <= Len(s)
  /\ \A k \in 1..Len(p) : s[i + k - 1] = p[k]

IsPrefixOf(p, s) == OccursAt(p, s, 1)
IsSuffixOf(p, s) == Len(p) <= Len(s) /\ OccursAt(p, s, Len(s) - Len(p) + 1)
Occurrences(p, s) == {i \in 1..(Len(s) - Len(p) + 1) : OccursAt(p, s, i)}
Contains(p, s) == Len(p) = 0 \/ Occurrences(p, s) # {}

Min(S) == CHOOSE x \in S : \A y \in S : x <= y
Max(S) == CHOOSE x \in S : \A y \in S : x >= y
\* first occurrence (memmem::find); 0 when absent; the empty needle is found at 1
FirstIndexOf(p, s) ==
  IF Len(p) = 0 THEN 1
  ELSE LET O == Occurrences(p, s) IN IF O = {} THEN 0 ELSE Min(O)

IndicesOfChar(c, s) == {i \in 1..Len(s) : s[i] = c}
FirstChar(c, s) == LET I == IndicesOfChar(c, s) IN IF I = {} THEN 0 ELSE Min(I)
LastChar(c, s) == LET I == IndicesOfChar(c, s) IN IF I = {} THEN 0 ELSE Max(I)

\* split s at every occurrence of character c (like str::split)
RECURSIVE SplitFrom(_, _, _)
SplitFrom(s, c, i) ==
  LET rest == {k \in i..Len(s) : s[k] = c} IN
  IF rest = {} THEN << Sub(s, i, Len(s)) >>
  ELSE LET k == Min(rest) IN << Sub(s, i, k - 1) >> \o SplitFrom(s, c, k + 1)
Split(s, c) == SplitFrom(s, c, 1)

RECURSIVE JoinWith(_, _)
JoinWith(parts, sep) ==
  IF Len(parts) = 0 THEN <<>>
  ELSE IF Len(parts) = 1 THEN parts[1]
  ELSE parts[1] \o sep \o JoinWith(Tail(parts), sep)

RECURSIVE ConcatAll(_)
ConcatAll(ss) == IF Len(ss) = 0 THEN <<>> ELSE ss[1] \o ConcatAll(Tail(ss))

SeqToSet(s) == {s[i] : i \in 1..Len(s)}
FilterSeq(s, P(_)) == SelectSeq(s, P)

\* TLC evaluates Len/SubSeq/\o on TLA+ strings, which gives the conversion between
\* TLA+ string literals (as they appear in JSON I/O) and character sequences
Chars(str) == [i \in 1..Len(str) |-> SubSeq(str, i, i)]
RECURSIVE Str(_)
Str(cs) == IF Len(cs) = 0 THEN "" ELSE cs[1] \o Str(Tail(cs))

\* all sequences over alphabet A with length in lo..hi
SeqsUpTo(A, lo, hi) == UNION {[1..n -> A] : n \in lo..hi}
=============================================================================
