------------------------------- MODULE Tokens -------------------------------
(***************************************************************************)
(* Impl layer of the token index (C01): which tokens a rule is indexed      *)
(* under, which tokens a request probes, and the safety condition that      *)
(* makes bucket choice irrelevant for completeness:                         *)
(*                                                                         *)
(*   every token a rule may be bucketed under is a probe token of every     *)
(*   request the rule's own matcher accepts.                                *)
(*                                                                         *)
(* The bucket a rule lands in depends on the token histogram of the whole   *)
(* list (src/network_filter_list.rs:19-65), but whichever of its tokens is  *)
(* chosen, AllTokensSafe guarantees that the lookup reaches the rule.       *)
(* anchors: src/utils.rs:22-64 (tokenizer), src/filters/network.rs:889-959  *)
(* (get_tokens), src/request.rs:105-118,241-247 (probe tokens)              *)
(***************************************************************************)
EXTENDS Net

CONSTANTS DevFirstTokenNotWhole,   \* pre-fix ef02439: the first token was skipped only for right-anchored patterns
          DevLastTokenIsFirst,     \* pre-fix 0638e8a: a trailing token that is also the leading one was kept
          DevUrlStarIsWildcard     \* pre-fix: the runs next to a literal '*' of the request URL were not probed

\* fast_tokenizer_no_regex: maximal runs of token characters of length >= 2, except
\*  - a run that starts the pattern when skipFirst,
\*  - a run that ends the pattern when skipLast,
\*  - a run adjacent to a '*' (in patterns only)
RECURSIVE RunEnd(_, _)
RunEnd(cs, i) == IF i <= Len(cs) /\ IsTokenChar(cs[i]) THEN RunEnd(cs, i + 1) ELSE i    \* first index after the run

\* star = TRUE for patterns ('*' is a wildcard: its neighbours may be parts of URL tokens), FALSE for
\* request URLs ('*' is a character like any other separator)
TokenizeW(cs, skipFirst, skipLast, star) ==
  LET starts == {i \in 1..Len(cs) : IsTokenChar(cs[i]) /\ (i = 1 \/ ~IsTokenChar(cs[i - 1]))} IN
  { Str(Sub(cs, i, RunEnd(cs, i) - 1)) :
      i \in { s \in starts :
                LET e == RunEnd(cs, s) IN     \* e - 1 = last char of the run
                /\ e - s > 1
                /\ (s # 1 \/ ~skipFirst)
                /\ (s = 1 \/ ~star \/ cs[s - 1] # "*")
                /\ IF e > Len(cs) THEN ~skipLast ELSE (~star \/ cs[e] # "*") } }
  \cup (IF DevLastTokenIsFirst /\ ~skipLast /\ Len(cs) > 1 /\ \A i \in 1..Len(cs) : IsTokenChar(cs[i])
        THEN {Str(cs)} ELSE {})
Tokenize(cs, skipFirst, skipLast) == TokenizeW(cs, skipFirst, skipLast, TRUE)

\* NetworkFilter::get_tokens for a non-complete-regex rule: the set of token groups (one group,
\* except for tokenless rules with included domains, which get one group per domain)
RuleTokenGroups(r) ==
  LET x == Extract(Pat(r))
      fold == FoldKind(r)
      fromHttp == fold \notin {"ws://", "https://"}
      fromHttps == fold \notin {"ws://", "http://"}
      domTok == IF Cardinality(r.dom) = 1 /\ r.ndom = {} THEN r.dom ELSE {}
      filt == IF fold # "none" THEN <<>> ELSE x.filter
      filtTok == Tokenize(filt, IF DevFirstTokenNotWhole THEN x.right ELSE ~x.left, ~x.right)
      hostTok == IF x.hostAnchor /\ ~x.hostRegex THEN Tokenize(x.hostname, FALSE, FALSE) ELSE {}
      base == domTok \cup filtTok \cup hostTok
      rp == IF base = {} /\ r.mkind = "removeparam" THEN Tokenize(LowerS(Chars(r.mval)), FALSE, FALSE) ELSE {}
      toks == base \cup rp
      scheme == IF fromHttp /\ ~fromHttps THEN {"http"} ELSE IF fromHttps /\ ~fromHttp THEN {"https"} ELSE {} IN
  IF toks = {} /\ r.dom # {} /\ r.ndom = {} THEN {{d} : d \in r.dom}
  ELSE {toks \cup scheme}

\* tokens a request probes: source hostname and its label suffixes, URL tokens, and the empty token
ProbeTokens(q) ==
  (IF Len(q.src) = 0 THEN {} ELSE {Str(s) : s \in HostSuffixes(q.src)})
  \cup TokenizeW(LowerS(q.url), FALSE, FALSE, DevUrlStarIsWildcard) \cup {""}

\* A token group is safe for q if all its tokens are probed (the empty group lives in the bucket of the
\* empty token, which every request probes).  A rule is reachable for q whichever tokens the histogram
\* picks iff every token of one of its groups... a multi-group rule is inserted under EVERY group, so
\* one safe group suffices; within a group any token may be picked, so all of them must be probed.
GroupSafe(g, q) == g \subseteq ProbeTokens(q)
AllTokensSafe(r, q) == \E g \in RuleTokenGroups(r) : GroupSafe(g, q)

\* C01 (M1): index completeness for one rule and one request
IndexComplete(r, q) == (Supported(q) /\ ImplHitM(r, q)) => AllTokensSafe(r, q)
=============================================================================
