----------------------------- MODULE Trace_C01 -----------------------------
(***************************************************************************)
(* M3 for C01 (also C04 precedence, C05 optimisation) on real filter lists. *)
(* `verif-harness record c01` builds engines from random sub-lists of the   *)
(* repository's corpora (hundreds to thousands of rules, so that the token  *)
(* histogram, bucket collisions and the optimizer work at realistic scale),  *)
(* and for every request logs                                               *)
(*   hits : the rules whose OWN matcher accepts the request (linear scan     *)
(*          over every parsed rule), each with its category attributes       *)
(*   obs  : the verdict the ENGINE returned (index, buckets, fusion in the   *)
(*          loop), for the optimised and the unoptimised engine              *)
(* The specification combines the hits with the documented precedence       *)
(* (Net!VerdictsFor) and the engine's verdict must be one of the results.    *)
(* A rule that matches and was lost by the index, or a rule applied although *)
(* its matcher rejects the request, shows up as a different verdict.         *)
(***************************************************************************)
EXTENDS Net, TLC, Json, IOUtils

Rec == ndJsonDeserialize(IOEnv.TRACE)
VARIABLE l
Init == l = 1

\* a logged hit as a Net rule record (only the fields VerdictsFor reads)
AsRule(h) == [R0 EXCEPT !.exc = h.exc, !.important = h.important, !.tag = h.tag, !.ghide = h.ghide,
                        !.mkind = h.mkind, !.mval = h.mval, !.body = Chars(h.line)]
Req(e) == [url |-> Chars(e.url), hs |-> 1, he |-> 1, scheme |-> e.scheme, alias |-> e.type, src |-> Chars(e.srchost), tp |-> e.tp]

\* For synthetic lists the generator also CLAIMS, for some rules (given as ASTs), that they must /
\* must not hit the request.  The spec does not trust the claim: it recomputes the rule's meaning
\* with Net!Hit, and then requires the implementation's own matcher to agree.  This is what
\* notices a defect inside the per-rule matcher, which the linear-scan oracle alone would share.
Claimed(m) == [R0 EXCEPT !.left = m.left, !.body = Chars(m.body), !.right = m.right, !.exc = m.exc,
                         !.pos = {m.pos[i] : i \in DOMAIN m.pos}, !.neg = {m.neg[i] : i \in DOMAIN m.neg}, !.party = m.party,
                         !.dom = {m.dom[i] : i \in DOMAIN m.dom}, !.ndom = {m.ndom[i] : i \in DOMAIN m.ndom}]
HitLines(e) == {e.hits[i].line : i \in DOMAIN e.hits}
ClaimProblems(e) ==
  LET q == Req(e) IN
  UNION { IF Hit(Claimed(e.must[i]), q) # {TRUE} THEN {"generator claim not supported by the specification (must): " \o e.must[i].line}
          ELSE IF e.must[i].line \notin HitLines(e) THEN {"the rule's own matcher rejects a request the rule must match: " \o e.must[i].line}
          ELSE {} : i \in DOMAIN e.must }
  \cup UNION { IF Hit(Claimed(e.mustnot[i]), q) # {FALSE} THEN {"generator claim not supported by the specification (mustnot): " \o e.mustnot[i].line}
               ELSE IF e.mustnot[i].line \in HitLines(e) THEN {"the rule's own matcher accepts a request the rule must not match: " \o e.mustnot[i].line}
               ELSE {} : i \in DOMAIN e.mustnot }

Expected(e) ==
  LET L == [i \in DOMAIN e.hits |-> AsRule(e.hits[i])]
      h == [i \in DOMAIN e.hits |-> TRUE]
      T == {e.tags[i] : i \in DOMAIN e.tags}
      q == Req(e) IN
  [v |-> {[matched |-> x.matched, important |-> x.important, exception |-> x.exception, rewritten |-> x.rewritten] :
             x \in VerdictsFor(L, h, T, {}, q)},
   csp |-> CspFor(L, h, T, q)]

Check(e) ==
  LET x == Expected(e)
      bad == {k \in DOMAIN e.obs :
                \/ [matched |-> e.obs[k].matched, important |-> e.obs[k].important, exception |-> e.obs[k].exception,
                    rewritten |-> e.obs[k].rewritten] \notin x.v
                \/ {e.obs[k].csp[i] : i \in DOMAIN e.obs[k].csp} # x.csp} IN
  IF bad = {} /\ ClaimProblems(e) = {} THEN TRUE
  ELSE PrintT(ToJson([ev |-> "MISMATCH", at |-> l, list |-> e.list, url |-> e.url, src |-> e.srchost, type |-> e.type, tags |-> e.tags,
                      hits |-> [i \in DOMAIN e.hits |-> e.hits[i].line], claims |-> ClaimProblems(e),
                      observed |-> [k \in bad |-> e.obs[k]], allowed |-> x.v, csp_allowed |-> x.csp, devs |-> {}]))

Next == l <= Len(Rec) /\ Check(Rec[l]) /\ l' = l + 1
Done == IF TLCGet("stats").diameter = Len(Rec) + 1
        THEN PrintT(ToJson([ev |-> "DONE", n |-> Len(Rec)]))
        ELSE PrintT(ToJson([ev |-> "INCOMPLETE", reached |-> TLCGet("stats").diameter]))
=============================================================================
