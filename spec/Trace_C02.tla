----------------------------- MODULE Trace_C02 -----------------------------
(***************************************************************************)
(* M3 for C02: every event is one call of the real matcher                  *)
(*   {left, body, right, url, hs, he, obs}                                  *)
(* recorded by `verif-harness record c02`.  The spec recomputes the Ideal   *)
(* (and the code-shaped model, for attribution) from the logged arguments.  *)
(***************************************************************************)
EXTENDS Pattern, TLC, Json, IOUtils

Rec == ndJsonDeserialize(IOEnv.TRACE)

VARIABLE l
Init == l = 1

Check(e) ==
  LET pat == [left |-> e.left, body |-> Chars(e.body), right |-> e.right]
      req == [url |-> Chars(e.url), hs |-> e.hs, he |-> e.he]
      allowed == IF Degenerate(pat) THEN {TRUE, FALSE} ELSE IdealMatch(pat, req)
      \* obs is logged as "T" / "F" / "panic" / "unstable" (first answer differs from the answer after
      \* the compiled regex was discarded and rebuilt); only "T"/"F" can be allowed
      ok == (e.obs = "T" /\ TRUE \in allowed) \/ (e.obs = "F" /\ FALSE \in allowed)
      \* the engine holding only this rule (token index in the loop) answers like the rule's own matcher
      engOk == e.eng = "-" \/ e.eng = e.obs
  IN IF ok /\ engOk THEN TRUE
     ELSE IF ok THEN PrintT(ToJson([ev |-> "MISMATCH", at |-> l, rule |-> e.rule, url |-> e.url, what |-> "index-vs-matcher",
                         observed |-> [engine |-> e.eng, matcher |-> e.obs], allowed |-> <<[engine |-> e.obs, matcher |-> e.obs]>>,
                         model |-> ImplMatch(pat, req), devs |-> {}]))
     ELSE PrintT(ToJson([ev |-> "MISMATCH", at |-> l, rule |-> e.rule, url |-> e.url,
                         observed |-> (IF e.obs = "T" THEN TRUE ELSE IF e.obs = "F" THEN FALSE ELSE e.obs), allowed |-> allowed,
                         model |-> ImplMatch(pat, req), devs |-> DevNames(pat, req)]))

Next == l <= Len(Rec) /\ Check(Rec[l]) /\ l' = l + 1

Done == IF TLCGet("stats").diameter = Len(Rec) + 1
        THEN PrintT(ToJson([ev |-> "DONE", n |-> Len(Rec)]))
        ELSE PrintT(ToJson([ev |-> "INCOMPLETE", reached |-> TLCGet("stats").diameter]))
=============================================================================
