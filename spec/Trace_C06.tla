----------------------------- MODULE Trace_C06 -----------------------------
(***************************************************************************)
(* M3 for C06 / C07 / C05 / C08 at scale: one long random history of public *)
(* operations on ONE long-lived Blocker or Engine holding hundreds of rules  *)
(* (tagged regex rules, full-regex rules, fusable groups of threshold size). *)
(* Events (verif-harness record c06):                                        *)
(*   header {rules: [attributes of every rule of the master list], initial}   *)
(*   use/enable/disable {tags}   add {id}   optimize   discard   policy        *)
(*   serialize   deserialize                                                  *)
(*   query {url, type, ..., hits: ids of the master rules whose own matcher    *)
(*          accepts the request (fresh parse, fresh regex manager), obs}       *)
(* The specification is the abstract engine: loaded rules, enabled tags and   *)
(* the saved image evolve by the same actions as MC_Engine; the answer to a    *)
(* query must be the combination (Net!VerdictsFor) of the hitting rules that   *)
(* are loaded NOW under the tags enabled NOW -- nothing else may matter.       *)
(***************************************************************************)
EXTENDS Net, TLC, Json, IOUtils

Rec == ndJsonDeserialize(IOEnv.TRACE)
Hdr == Rec[1]

VARIABLES rules, tags, blob, l
vars == <<rules, tags, blob, l>>

SetOf(sq) == {sq[i] : i \in DOMAIN sq}
Init == rules = SetOf(Hdr.initial) /\ tags = {} /\ blob = {} /\ l = 2

AsRule(a) == [R0 EXCEPT !.exc = a.exc, !.important = a.important, !.tag = a.tag, !.ghide = a.ghide,
                        !.mkind = a.mkind, !.mval = a.mval, !.body = Chars(a.line)]

Expected(e) ==
  LET live == SelectSeq(e.hits, LAMBDA id : id \in rules)
      L == [i \in DOMAIN live |-> AsRule(Hdr.rules[live[i]])]
      h == [i \in DOMAIN live |-> TRUE]
      q == [url |-> Chars(e.url), hs |-> 1, he |-> 1, scheme |-> e.scheme, alias |-> e.type, src |-> <<"s">>, tp |-> e.tp] IN
  [v |-> {[matched |-> x.matched, important |-> x.important, exception |-> x.exception, rewritten |-> x.rewritten] :
             x \in VerdictsFor(L, h, tags, {}, q)},
   csp |-> CspFor(L, h, tags, q)]

Step(e) ==
  IF e.op = "use" THEN tags' = SetOf(e.tags) /\ UNCHANGED <<rules, blob>>
  ELSE IF e.op = "enable" THEN tags' = tags \cup SetOf(e.tags) /\ UNCHANGED <<rules, blob>>
  ELSE IF e.op = "disable" THEN tags' = tags \ SetOf(e.tags) /\ UNCHANGED <<rules, blob>>
  ELSE IF e.op = "add" THEN rules' = rules \cup {e.id} /\ UNCHANGED <<tags, blob>>
  ELSE IF e.op = "serialize" THEN blob' = rules /\ UNCHANGED <<rules, tags>>
  ELSE IF e.op = "deserialize" THEN rules' = blob /\ UNCHANGED <<tags, blob>>      \* tags are the caller's
  ELSE IF e.op = "load" THEN rules' = SetOf(e.ids) /\ UNCHANGED <<tags, blob>>     \* the image of another engine
  ELSE IF e.op = "query" THEN
       /\ UNCHANGED <<rules, tags, blob>>
       /\ LET x == Expected(e)
              ok == /\ [matched |-> e.obs.matched, important |-> e.obs.important, exception |-> e.obs.exception,
                        rewritten |-> e.obs.rewritten] \in x.v
                    /\ SetOf(e.obs.csp) = x.csp
                    /\ SetOf(e.obs.tags) = tags IN
          IF ok THEN TRUE
          ELSE PrintT(ToJson([ev |-> "MISMATCH", at |-> l, url |-> e.url, type |-> e.type, enabled |-> tags,
                              live_hits |-> [i \in DOMAIN SelectSeq(e.hits, LAMBDA id : id \in rules) |->
                                               Hdr.rules[SelectSeq(e.hits, LAMBDA id : id \in rules)[i]].line],
                              observed |-> e.obs, allowed |-> x.v, csp_allowed |-> x.csp, history |-> e.recent, devs |-> {}]))
  ELSE UNCHANGED <<rules, tags, blob>>      \* optimize, discard, policy: no abstract effect

Next == l <= Len(Rec) /\ Step(Rec[l]) /\ l' = l + 1
Done == IF TLCGet("stats").diameter = Len(Rec)
        THEN PrintT(ToJson([ev |-> "DONE", n |-> Len(Rec)]))
        ELSE PrintT(ToJson([ev |-> "INCOMPLETE", reached |-> TLCGet("stats").diameter]))
=============================================================================
