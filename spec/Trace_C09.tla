----------------------------- MODULE Trace_C09 -----------------------------
(***************************************************************************)
(* M3 for C09: events {ev:"ser", cfg, how, digest} recorded by              *)
(* `verif-harness record c09`: the same rule list serialized by fresh       *)
(* in-process builds, by child processes (fresh hash seeds) and after one    *)
(* and two reloads.  The spec keeps, per configuration, the image first     *)
(* seen; every later serialization of that configuration must be that image. *)
(***************************************************************************)
EXTENDS Naturals, Sequences, TLC, Json, IOUtils

Rec == ndJsonDeserialize(IOEnv.TRACE)
Cfgs == {Rec[i].cfg : i \in DOMAIN Rec}

VARIABLES img, l
Init == img = [c \in Cfgs |-> ""] /\ l = 1

SerEvent(e) ==
  IF img[e.cfg] = "" THEN
       /\ img' = [img EXCEPT ![e.cfg] = e.digest]
       /\ IF Len(e.digest) >= 5 /\ SubSeq(e.digest, 1, 5) = "panic" THEN
            PrintT(ToJson([ev |-> "MISMATCH", at |-> l, cfg |-> e.cfg, how |-> e.how, observed |-> e.digest, allowed |-> <<>>, devs |-> {}]))
          ELSE TRUE
  ELSE /\ UNCHANGED img
       /\ IF e.digest = img[e.cfg] THEN TRUE
          ELSE PrintT(ToJson([ev |-> "MISMATCH", at |-> l, cfg |-> e.cfg, how |-> e.how, observed |-> e.digest,
                              allowed |-> <<img[e.cfg]>>, devs |-> {}]))

Next == l <= Len(Rec) /\ SerEvent(Rec[l]) /\ l' = l + 1

Done == IF TLCGet("stats").diameter = Len(Rec) + 1
        THEN PrintT(ToJson([ev |-> "DONE", n |-> Len(Rec)]))
        ELSE PrintT(ToJson([ev |-> "INCOMPLETE", reached |-> TLCGet("stats").diameter]))
=============================================================================
