----------------------------- MODULE Trace_C10 -----------------------------
(***************************************************************************)
(* M3 for C10: validates a recorded run of the fault enumeration against    *)
(* Load.tla.  Events (verif-harness record c10):                            *)
(*   images  {A, B: battery digest of each valid image under tags {t1}}     *)
(*   load    {img: "A"|"B"|"" , fault, len, result: ok|err|panic, peak}     *)
(*   battery {digest | "panic:..."}      reser {result}                     *)
(* Every event must be explained by a Load action; the battery digest must  *)
(* be the digest of the image the abstract state says is loaded.            *)
(***************************************************************************)
EXTENDS Load, TLC, Json, IOUtils

Rec == ndJsonDeserialize(IOEnv.TRACE)
AllocBound(len) == 67108864 + 4096 * len      \* 64 MiB + 4 KiB per input byte

VARIABLE l
tvars == <<cur, tags, partial, l>>

Hdr == Rec[1]
DigestOf(i) == IF i = "A" THEN Hdr.A ELSE IF i = "B" THEN Hdr.B ELSE Hdr.C

Bad(e, why) == PrintT(ToJson([ev |-> "MISMATCH", at |-> l, what |-> why, event |-> e, state |-> cur,
                              observed |-> why, allowed |-> <<>>, devs |-> {}]))

TInit == cur = "B" /\ tags = {"t1"} /\ partial = FALSE /\ l = 2

Step(e) ==
  IF e.ev = "load" THEN
       /\ IF e.peak > AllocBound(e.len) THEN Bad(e, "allocation-bound") ELSE TRUE
       /\ IF e.result = "panic" THEN Bad(e, "load-panicked") /\ LoadAcceptedCorrupt
          ELSE IF e.result = "err" THEN
               (IF e.fault = "none" THEN Bad(e, "valid-image-rejected") ELSE TRUE) /\ LoadRejected
          ELSE IF e.fault = "none" THEN LoadValid(e.img)
          ELSE IF e.img # "" THEN LoadValid(e.img)            \* the "fault" reproduced a valid image
          ELSE LoadAcceptedCorrupt
  ELSE IF e.ev = "battery" THEN
       /\ UNCHANGED vars
       /\ IF Len(e.digest) >= 5 /\ SubSeq(e.digest, 1, 5) = "panic" THEN Bad(e, "query-panicked")
          ELSE IF cur = "havoc" THEN TRUE      \* accepted corrupt data: any answer, but no panic
          ELSE IF e.digest = DigestOf(cur) THEN TRUE
          ELSE Bad(e, "engine-changed-by-rejected-load-or-wrong-after-valid-load")
  ELSE IF e.ev = "reser" THEN
       /\ UNCHANGED vars
       /\ IF e.result = "panic" THEN Bad(e, "reserialize-panicked") ELSE TRUE
  ELSE UNCHANGED vars

Next2 == l <= Len(Rec) /\ Step(Rec[l]) /\ l' = l + 1
Init2 == TInit

Done == IF TLCGet("stats").diameter = Len(Rec)
        THEN PrintT(ToJson([ev |-> "DONE", n |-> Len(Rec)]))
        ELSE PrintT(ToJson([ev |-> "INCOMPLETE", reached |-> TLCGet("stats").diameter]))
=============================================================================
