----------------------------- MODULE Trace_C11 -----------------------------
(***************************************************************************)
(* M3 for C11 (totality clause, thin spec - DESIGN.md section 8): every     *)
(* event is one parse of one mutated line under one option set              *)
(*   {ev, line, format, rule_types, outcome, independence}                  *)
(* The outcome must be one of net / cos / rej (never panic); the rule-type   *)
(* and format options restrict the outcome; a rejected line placed between   *)
(* two good lines must leave the engine exactly as the two good lines alone. *)
(***************************************************************************)
EXTENDS Naturals, Sequences, TLC, Json, IOUtils

Rec == ndJsonDeserialize(IOEnv.TRACE)
VARIABLE l
Init == l = 1

Allowed(e) ==
  IF e.ev = "metadata" THEN {"ok"}
  ELSE IF e.format = "hosts" THEN (IF e.rule_types = "cosmetic" THEN {"rej"} ELSE {"net", "rej"})
  ELSE IF e.rule_types = "cosmetic" THEN {"cos", "rej"}
  ELSE IF e.rule_types = "network" THEN {"net", "rej"}
  ELSE {"net", "cos", "rej"}

Check(e) ==
  IF e.outcome \in Allowed(e) /\ e.independence \in {"same", "n/a"} THEN TRUE
  ELSE PrintT(ToJson([ev |-> "MISMATCH", at |-> l, line |-> e.line, format |-> e.format, rule_types |-> e.rule_types,
                      observed |-> <<e.outcome, e.independence>>, allowed |-> Allowed(e), devs |-> {}]))

Next == l <= Len(Rec) /\ Check(Rec[l]) /\ l' = l + 1
Done == IF TLCGet("stats").diameter = Len(Rec) + 1
        THEN PrintT(ToJson([ev |-> "DONE", n |-> Len(Rec)]))
        ELSE PrintT(ToJson([ev |-> "INCOMPLETE", reached |-> TLCGet("stats").diameter]))
=============================================================================
