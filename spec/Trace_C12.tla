----------------------------- MODULE Trace_C12 -----------------------------
(***************************************************************************)
(* M3 for C12 (totality clause): arbitrary strings handed to Request::new   *)
(* and Request::preparsed.  The specification's contribution here is thin    *)
(* (DESIGN.md section 8): no call may panic, and for calls that succeed the  *)
(* scheme classification must be consistent with the normalised scheme:      *)
(* only http/https/ws/wss are supported, ws/wss force the websocket type,    *)
(* a request without usable source is third-party.                           *)
(***************************************************************************)
EXTENDS Naturals, Sequences, TLC, Json, IOUtils

Rec == ndJsonDeserialize(IOEnv.TRACE)
VARIABLE l
Init == l = 1

IsPanic(s) == Len(s) >= 5 /\ SubSeq(s, 1, 5) = "panic"

Problems(e) ==
  (IF IsPanic(e.new.res) THEN {"Request::new panicked"} ELSE {})
  \cup (IF IsPanic(e.preparsed) THEN {"Request::preparsed panicked"} ELSE {})
  \cup (IF e.new.res = "ok" THEN
          (IF e.new.supported # (e.new.scheme \in {"http", "https", "ws", "wss"}) THEN {"supported flag inconsistent with scheme"} ELSE {})
          \cup (IF e.new.http # (e.new.scheme = "http") \/ e.new.https # (e.new.scheme = "https") THEN {"http/https flags inconsistent with scheme"} ELSE {})
          \cup (IF e.new.scheme \in {"ws", "wss"} /\ e.new.type # "websocket" THEN {"websocket scheme without websocket type"} ELSE {})
          \cup (IF e.new.nosrc /\ ~e.new.tp THEN {"no source but first-party"} ELSE {})
        ELSE {})

Check(e) ==
  IF Problems(e) = {} THEN TRUE
  ELSE PrintT(ToJson([ev |-> "MISMATCH", at |-> l, url |-> e.url, src |-> e.src, ty |-> e.ty, observed |-> Problems(e),
                      allowed |-> <<>>, devs |-> {}]))

Next == l <= Len(Rec) /\ Check(Rec[l]) /\ l' = l + 1
Done == IF TLCGet("stats").diameter = Len(Rec) + 1
        THEN PrintT(ToJson([ev |-> "DONE", n |-> Len(Rec)]))
        ELSE PrintT(ToJson([ev |-> "INCOMPLETE", reached |-> TLCGet("stats").diameter]))
=============================================================================
