----------------------------- MODULE Trace_C18 -----------------------------
(***************************************************************************)
(* M3 for C18 (argument encoding): events recorded by `verif-harness record *)
(* c18`: {text, emitted} where text is what stands between '+js(' and ')'   *)
(* of a rule for a function-style scriptlet and emitted is the list of      *)
(* arguments obtained by parsing the string literals of the injected call   *)
(* back ("none" when nothing was injected, "unparsable" when a literal is    *)
(* not a well-formed string literal).  The spec recomputes the argument     *)
(* list with Cosmetic!ParseArgs: Decode(Encode(arg)) = arg for every arg.   *)
(***************************************************************************)
EXTENDS Cosmetic, TLC, Json, IOUtils

Rec == ndJsonDeserialize(IOEnv.TRACE)
VARIABLE l
Init == l = 1

Expected(e) ==
  LET pa == ParseArgs(e.text) IN
  IF ~pa.ok \/ Len(pa.args) = 0 THEN [kind |-> "none", args |-> <<>>]
  ELSE IF Len(pa.args) = 2 /\ Len(Chars(pa.args[2])) >= 2 /\ Chars(pa.args[2])[1] = "{"
          /\ Chars(pa.args[2])[Len(Chars(pa.args[2]))] = "}" THEN [kind |-> "none", args |-> <<>>]
  ELSE [kind |-> "args", args |-> Tail(pa.args)]

Check(e) ==
  IF e.emitted.kind = Expected(e).kind /\ e.emitted.args = Expected(e).args THEN TRUE
  ELSE PrintT(ToJson([ev |-> "MISMATCH", at |-> l, text |-> e.text, observed |-> e.emitted,
                      allowed |-> <<Expected(e)>>, devs |-> {}]))

Next == l <= Len(Rec) /\ Check(Rec[l]) /\ l' = l + 1
Done == IF TLCGet("stats").diameter = Len(Rec) + 1
        THEN PrintT(ToJson([ev |-> "DONE", n |-> Len(Rec)]))
        ELSE PrintT(ToJson([ev |-> "INCOMPLETE", reached |-> TLCGet("stats").diameter]))
=============================================================================
