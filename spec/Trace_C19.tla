----------------------------- MODULE Trace_C19 -----------------------------
(***************************************************************************)
(* M3 for C19: a run of N real threads sharing one Engine (thread-safe      *)
(* build), recorded by `verif-harness c19` with the lock hooks of           *)
(* src/verif_hooks.rs.  Events, in the order of a global sequence counter:  *)
(*   begin(t,q)  before_lock(t)  locked(t)  unlocking(t)  end(t,q,digest)    *)
(* "locked" and "unlocking" are emitted while the lock is held, so their    *)
(* order is the order of the critical sections.  Each event must be a step   *)
(* of Concurrency.tla: locked = Acquire, unlocking = Work followed by        *)
(* Release; the answer carried by end must be the sequential answer.         *)
(***************************************************************************)
EXTENDS Concurrency, Json, IOUtils

Rec == ndJsonDeserialize(IOEnv.TRACE)
RegexOfT == [q \in Queries |-> {}]
Hdr == Rec[1]
VARIABLE l
tvars == <<pc, cur, left, lock, cache, discarded, poisoned, results, l>>

TInit == /\ pc = [t \in Threads |-> "idle"] /\ cur = [t \in Threads |-> NONE] /\ left = [t \in Threads |-> M]
         /\ lock = NONE /\ cache = {} /\ discarded = {} /\ poisoned = FALSE /\ results = {} /\ l = 2

Bad(e, why) == PrintT(ToJson([ev |-> "MISMATCH", at |-> l, what |-> why, event |-> e, lockholder |-> lock,
                              observed |-> why, allowed |-> <<>>, devs |-> {}]))

Step(e) ==
  LET t == ToString(e.t) IN
  IF e.ev = "begin" THEN
       IF pc[t] = "idle" THEN Begin(t, ToString(e.q)) ELSE Bad(e, "begin while a query of this thread is still open") /\ UNCHANGED vars
  ELSE IF e.ev = "before_lock" THEN UNCHANGED vars
  ELSE IF e.ev = "locked" THEN
       IF lock = NONE /\ pc[t] = "waiting"
         THEN /\ lock' = t /\ pc' = [pc EXCEPT ![t] = "critical"]         \* Acquire(t) with D = {}
              /\ UNCHANGED <<cur, left, cache, discarded, poisoned, results>>
         ELSE Bad(e, "lock acquired while another thread holds it (mutual exclusion)") /\ UNCHANGED vars
  ELSE IF e.ev = "unlocking" THEN
       IF lock = t /\ pc[t] = "critical"
         THEN /\ lock' = NONE /\ pc' = [pc EXCEPT ![t] = "waiting"]        \* Work(t) . Release(t); the query itself ends at "end"
              /\ UNCHANGED <<cur, left, cache, discarded, poisoned, results>>
         ELSE Bad(e, "unlock by a thread that does not hold the lock") /\ UNCHANGED vars
  ELSE IF e.ev = "end" THEN
       /\ IF pc[t] = "waiting" /\ lock # t
            THEN /\ pc' = [pc EXCEPT ![t] = "idle"] /\ cur' = [cur EXCEPT ![t] = NONE]
                 /\ UNCHANGED <<left, lock, cache, discarded, poisoned, results>>
            ELSE Bad(e, "query ended while holding the lock or without having started") /\ UNCHANGED vars
       /\ IF e.digest = Hdr.table[e.q] THEN TRUE
          ELSE Bad(e, IF Len(e.digest) >= 5 /\ SubSeq(e.digest, 1, 5) = "panic" THEN "query panicked (lock poisoned or contended)"
                      ELSE "concurrent answer differs from the sequential answer")
  ELSE IF e.ev = "deadlock" THEN Bad(e, "threads did not finish: deadlock") /\ UNCHANGED vars
  ELSE UNCHANGED vars

Next2 == l <= Len(Rec) /\ Step(Rec[l]) /\ l' = l + 1
Init2 == TInit

\* the two feature configurations give identical sequential answers
ConfigsAgree == Hdr.table = Hdr.unsync

Done == IF TLCGet("stats").diameter = Len(Rec)
        THEN PrintT(ToJson([ev |-> "DONE", n |-> Len(Rec), agree |-> ConfigsAgree]))
        ELSE PrintT(ToJson([ev |-> "INCOMPLETE", reached |-> TLCGet("stats").diameter]))
=============================================================================
