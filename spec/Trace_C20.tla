----------------------------- MODULE Trace_C20 -----------------------------
(***************************************************************************)
(* C20: content-blocking export.  Events recorded by `verif-harness record  *)
(* c20`, one per converted rule set:                                        *)
(*   {outcome, rules, used, singles, out: [{type, url_filter, if_domain,    *)
(*     unless_domain, selector}], matches: [{rule, url, must, cb}]}          *)
(* The specification states the well-formedness predicates of the output    *)
(* (ContentBlocking part below) and checks them on every emitted rule.       *)
(* anchors: src/content_blocking.rs:302-671, src/lists.rs:274-332            *)
(***************************************************************************)
EXTENDS Strs, TLC, Json, IOUtils

Rec == ndJsonDeserialize(IOEnv.TRACE)
VARIABLE l
Init == l = 1

AsciiPrintable == LowerLetters \cup UpperLetters \cup Digits \cup
  {" ", "!", "\"", "#", "$", "%", "&", "'", "(", ")", "*", "+", ",", "-", ".", "/", ":", ";", "<", "=", ">", "?", "@",
   "[", "\\", "]", "^", "_", "`", "{", "|", "}", "~"}
IsAscii(str) == \A i \in 1..Len(Chars(str)) : Chars(str)[i] \in AsciiPrintable

\* The regex subset Safari accepts: literals, escaped non-alphanumerics, '.', ranges [..], the
\* quantifiers ? + *, groups ( ), '^' only at the start and '$' only at the end.  Not accepted:
\* alternation '|', counted repetition '{', shorthand classes / backreferences (backslash + alnum).
RECURSIVE Scan(_, _, _, _)
Scan(cs, i, depth, inClass) ==
  IF i > Len(cs) THEN depth = 0 /\ ~inClass
  ELSE LET c == cs[i] IN
    IF c = "\\" THEN i < Len(cs) /\ ~IsAlnum(cs[i + 1]) /\ Scan(cs, i + 2, depth, inClass)
    ELSE IF inClass THEN (IF c = "]" THEN Scan(cs, i + 1, depth, FALSE) ELSE Scan(cs, i + 1, depth, TRUE))
    ELSE IF c = "[" THEN Scan(cs, i + 1, depth, TRUE)
    ELSE IF c = "(" THEN Scan(cs, i + 1, depth + 1, FALSE)
    ELSE IF c = ")" THEN depth > 0 /\ Scan(cs, i + 1, depth - 1, FALSE)
    ELSE IF c \in {"|", "{", "}"} THEN FALSE
    ELSE IF c = "^" THEN i = 1 /\ Scan(cs, i + 1, depth, FALSE)
    ELSE IF c = "$" THEN i = Len(cs)
    ELSE IF c \in {"*", "+", "?"} THEN i > 1 /\ cs[i - 1] \notin {"(", "^"} /\ Scan(cs, i + 1, depth, FALSE)
    ELSE Scan(cs, i + 1, depth, FALSE)
SafariRegexOk(str) == Len(Chars(str)) > 0 /\ Scan(Chars(str), 1, 0, FALSE)

RuleProblems(o) ==
  (IF ~IsAscii(o.url_filter) \/ ~IsAscii(o.selector) \/ \E d \in SeqToSet(o.if_domain) \cup SeqToSet(o.unless_domain) : ~IsAscii(d)
      THEN {"non-ASCII output"} ELSE {})
  \cup (IF ~SafariRegexOk(o.url_filter) THEN {"url-filter outside the Safari regex subset"} ELSE {})
  \cup (IF Len(o.if_domain) > 0 /\ Len(o.unless_domain) > 0 THEN {"both if-domain and unless-domain"} ELSE {})

\* every ignore-previous-rules entry comes after every other entry
Ordered(out) == \A i, j \in DOMAIN out : (out[i].type = "ignore-previous-rules" /\ out[j].type # "ignore-previous-rules") => j < i

Problems(e) ==
  IF e.outcome # "ok" THEN {"conversion " \o e.outcome}
  ELSE UNION {RuleProblems(e.out[i]) : i \in DOMAIN e.out}
       \cup (IF ~Ordered(e.out) THEN {"ignore-previous-rules before a blocking entry"} ELSE {})
       \* the converted list is exactly the input rules that produce output on their own
       \cup (IF e.used # e.singles THEN {"list of converted rules differs from the rules that produce output"} ELSE {})
       \cup (IF Len(e.out) < Len(e.used) THEN {"fewer output rules than converted input rules"} ELSE {})
       \* plain patterns: every URL the rule must match is matched by the emitted pattern
       \cup (IF \E k \in DOMAIN e.matches : e.matches[k].must /\ ~e.matches[k].cb THEN {"emitted pattern misses a URL the rule matches"} ELSE {})

Check(e) ==
  IF Problems(e) = {} THEN TRUE
  ELSE PrintT(ToJson([ev |-> "MISMATCH", at |-> l, rules |-> e.rules, observed |-> Problems(e), out |-> e.out,
                      matches |-> SelectSeq(e.matches, LAMBDA m : m.must /\ ~m.cb), allowed |-> <<>>, devs |-> {}]))

Next == l <= Len(Rec) /\ Check(Rec[l]) /\ l' = l + 1
Done == IF TLCGet("stats").diameter = Len(Rec) + 1
        THEN PrintT(ToJson([ev |-> "DONE", n |-> Len(Rec)]))
        ELSE PrintT(ToJson([ev |-> "INCOMPLETE", reached |-> TLCGet("stats").diameter]))
=============================================================================
