----------------------------- MODULE Trace_Regex -----------------------------
(***************************************************************************)
(* M3 for the compiled-regex cache: validates a run recorded from a real     *)
(* engine (verif-harness record regex) against RegexCache.                   *)
(*                                                                         *)
(* Events (every event carries tb/ta: the driver's clock, in microseconds,   *)
(* read just before and just after the call - the manager read ITS clock     *)
(* somewhere in between):                                                    *)
(*   hdr     {k}                      number of regex rules                  *)
(*   new     {}                       a new engine (also: deserialize)       *)
(*   check   {keys, ok}               a query evaluating the regexes `keys`; *)
(*                                    ok = verdict equals a fresh engine's   *)
(*   policy  {interval, unused}   discard {key}   retag {}                   *)
(*   obs     {st, uses, count}        the debug report after the operation   *)
(*                                                                         *)
(* Since elapsed-time comparisons are three-valued, the validator tracks     *)
(* the SET of manager states compatible with the run so far (subset          *)
(* construction, one behaviour, linear time).  An `obs` event filters the    *)
(* set.  If nothing is left the cache life cycle of the implementation is    *)
(* not the modelled one: reported as DRIFT (informational - C06 is about     *)
(* answers, not about when memory is released) and the state is resynced     *)
(* from the report.  A check with ok = "false" is a C06 MISMATCH.            *)
(***************************************************************************)
EXTENDS RegexCache, TLC, Json, IOUtils

Rec == ndJsonDeserialize(IOEnv.TRACE)
TraceKeys == 1..Rec[1].k

VARIABLES poss, l
tvars == <<poss, l>>

T(e) == Iv(e.tb, e.ta)
ToSet(seq) == {seq[i] : i \in DOMAIN seq}

Resync(e, pol) ==
  [cache |-> [k \in Keys |-> [st |-> e.st[k], last |-> Iv(0, e.ta), uses |-> e.uses[k]]],
   count |-> e.count, now |-> T(e), lastCleanup |-> Iv(0, e.ta), policy |-> pol]

Matches(mm, e) == LET p == Projection(mm) IN
  /\ \A k \in Keys : p.st[k] = e.st[k] /\ p.uses[k] = e.uses[k]
  /\ p.count = e.count

Step(e) ==
  IF e.op = "new" THEN poss' = {Fresh(T(e))}
  ELSE IF e.op = "check" THEN
       /\ poss' = UNION {Check(mm, T(e), ToSet(e.keys)) : mm \in poss}
       /\ IF e.ok = "true" THEN TRUE
          ELSE PrintT(ToJson([ev |-> "MISMATCH", at |-> l, what |-> "answer-depends-on-regex-cache-state", event |-> e,
                              observed |-> e.got, allowed |-> <<e.want>>, devs |-> {}]))
  ELSE IF e.op = "policy" THEN poss' = UNION {SetPolicy(mm, T(e), [interval |-> e.interval, unused |-> e.unused]) : mm \in poss}
  ELSE IF e.op = "discard" THEN poss' = UNION {Discard(mm, T(e), e.key) : mm \in poss}
  ELSE IF e.op = "retag" THEN poss' = UNION {Clear(mm, T(e)) : mm \in poss}
  ELSE IF e.op = "obs" THEN
       LET cand == UNION {Observe(mm, T(e)) : mm \in poss}
           keep == {mm \in cand : Matches(mm, e)} IN
       IF keep # {} THEN poss' = keep
       ELSE /\ PrintT(ToJson([ev |-> "DRIFT", at |-> l, event |-> e,
                              model |-> {Projection(mm) : mm \in cand}]))
            /\ poss' = {Resync(e, (CHOOSE mm \in cand : TRUE).policy)}
  ELSE UNCHANGED poss

Init == poss = {} /\ l = 2
Next == l <= Len(Rec) /\ Step(Rec[l]) /\ l' = l + 1

Done == IF TLCGet("stats").diameter = Len(Rec)
        THEN PrintT(ToJson([ev |-> "DONE", n |-> Len(Rec)]))
        ELSE PrintT(ToJson([ev |-> "INCOMPLETE", reached |-> TLCGet("stats").diameter]))
=============================================================================
