-------------------------------- MODULE Wire --------------------------------
(***************************************************************************)
(* C09: the serialized image is a function of the rule sequence and flags.  *)
(* Impl layer: the engine keeps its data in hash containers whose iteration *)
(* order depends on a per-map random seed (std RandomState) and, for the    *)
(* per-bucket rule vectors, on the order in which the optimizer's temporary *)
(* map hands groups back.  Each container reaches the image either through  *)
(* an ordered view (BTreeMap/BTreeSet, or sort by rule id) or by raw        *)
(* iteration.  anchors: src/data_format/utils.rs:10-32,                     *)
(* src/data_format/v0.rs:283-330, src/network_filter_list.rs:225-236,       *)
(* src/optimizer.rs:30-32                                                   *)
(***************************************************************************)
EXTENDS Naturals, Sequences, FiniteSets

CONSTANTS Containers,   \* names of the hash containers of the image being modelled, out of AllContainers
          Keys,   \* abstract content of every container (the same for all: only order matters)
          Raw     \* set of container names serialized by raw iteration (deviation switch; {} in the code)

AllContainers == {"filter_map", "bucket_vec", "simple_class", "simple_id", "complex_class", "complex_id",
               "hostname_db", "misc_generic", "procedural_action", "procedural_action_exception"}

ASSUME Containers \subseteq AllContainers
Perms(S) == {f \in [1..Cardinality(S) -> S] : \A i, j \in 1..Cardinality(S) : i # j => f[i] # f[j]}
Sorted(S) == CHOOSE f \in Perms(S) : \A i, j \in 1..Cardinality(S) : i < j => f[i] < f[j]

VARIABLES order,      \* order[c]: this process's iteration order of container c (hash seed dependent)
          image       \* the image produced from it
vars == <<order, image>>

ImageOf(o) == [c \in Containers |-> IF c \in Raw THEN o[c] ELSE Sorted(Keys)]

Init == order \in [Containers -> Perms(Keys)] /\ image = ImageOf(order)
\* a new process / a fresh map: any other iteration order
Rebuild == order' \in [Containers -> Perms(Keys)] /\ image' = ImageOf(order')
\* loading the image and serializing again: the loaded containers hold the image's content, again
\* in an arbitrary iteration order
Reload == order' \in [Containers -> Perms(Keys)] /\ image' = ImageOf(order')
Next == Rebuild \/ Reload

Canonical == [c \in Containers |-> Sorted(Keys)]
Deterministic == image = Canonical
Fixpoint == [][image' = image]_vars
=============================================================================
