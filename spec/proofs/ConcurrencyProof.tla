-------------------------- MODULE ConcurrencyProof --------------------------
(***************************************************************************)
(* C19, unbounded: TLC checks Concurrency.tla for 2-3 threads and 2-3        *)
(* queries each.  This module proves with TLAPS, for ANY set of threads,     *)
(* any queries and any number of queries per thread, that the locking        *)
(* discipline of the thread-safe build (no deviation switched on) keeps      *)
(*   - mutual exclusion of the critical sections,                            *)
(*   - lock = t  exactly while thread t is inside its critical section,      *)
(*   - no panic and no poisoned lock,                                        *)
(*   - every recorded answer equal to the sequential one.                    *)
(* Checked by: tlapm spec/ConcurrencyProof.tla  (bin/check C19 --tier        *)
(* thorough runs it).                                                        *)
(***************************************************************************)
EXTENDS Concurrency, TLAPS

ASSUME NoDeviation == DevPanicOnRecompile = FALSE /\ DevTryLock = FALSE
ASSUME NoneIsNoThread == NONE \notin Threads

PcValues == {"idle", "waiting", "critical", "answered", "panicked"}

Inv ==
  /\ pc \in [Threads -> PcValues]
  /\ lock \in Threads \cup {NONE}
  /\ poisoned = FALSE
  /\ \A t \in Threads : pc[t] # "panicked"
  /\ \A t \in Threads : (lock = t) <=> (pc[t] \in {"critical", "answered"})
  /\ \A r \in results : r[3] = Ans(r[2])

\* mutual exclusion without cardinalities
Exclusive == \A s, t \in Threads : (pc[s] \in {"critical", "answered"} /\ pc[t] \in {"critical", "answered"}) => s = t

LEMMA InitInv == Init => Inv
  BY NoneIsNoThread DEF Init, Inv, PcValues, NONE

LEMMA StepInv == Inv /\ [Next]_vars => Inv'
<1> SUFFICES ASSUME Inv, [Next]_vars PROVE Inv'
  OBVIOUS
<1>1 CASE UNCHANGED vars
  BY <1>1 DEF Inv, vars, PcValues, Ans
<1>2 ASSUME NEW t \in Threads, NEW q \in Queries, Begin(t, q) PROVE Inv'
  BY <1>2 DEF Inv, Begin, PcValues, Ans
<1>3 ASSUME NEW t \in Threads, Acquire(t) PROVE Inv'
  BY <1>3, NoDeviation, NoneIsNoThread DEF Inv, Acquire, PcValues, Ans, NONE
<1>4 ASSUME NEW t \in Threads, Work(t) PROVE Inv'
  BY <1>4, NoDeviation, NoneIsNoThread DEF Inv, Work, PcValues, Ans, NONE
<1>5 ASSUME NEW t \in Threads, Release(t) PROVE Inv'
  BY <1>5, NoneIsNoThread DEF Inv, Release, PcValues, Ans, NONE
<1> QED
  BY <1>1, <1>2, <1>3, <1>4, <1>5 DEF Next

THEOREM Safety == Spec => []Inv
<1>1 Init => Inv BY InitInv
<1>2 Inv /\ [Next]_vars => Inv' BY StepInv
<1> QED BY <1>1, <1>2, PTL DEF Spec

THEOREM InvImpliesProperties == Inv => Exclusive /\ NoPanic /\ AnswersSequential /\ ~poisoned
  BY DEF Inv, Exclusive, NoPanic, AnswersSequential

THEOREM Spec => [](Exclusive /\ NoPanic /\ AnswersSequential /\ ~poisoned)
  BY Safety, InvImpliesProperties, PTL
=============================================================================
