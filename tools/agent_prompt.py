#!/usr/bin/env python3
"""Prints the prompt given to a fresh sub-agent that seeds a property-breaking change.
Only the property text and a scratch worktree path go in; nothing from /verif."""
import json, sys
pid = sys.argv[1]
wt = sys.argv[2]
EXTRA = sys.argv[3] if len(sys.argv) > 3 else ''
p = [json.loads(l) for l in open('/verif/properties.jsonl') if json.loads(l)['id'] == pid][0]
print(f"""You are working on a scratch git worktree of the Rust crate brave/adblock-rust at {wt} (already created, at the pinned commit). Work ONLY inside {wt}. Do not read or touch /repo or /verif, and do not use the network (the sandbox is offline; use `cargo ... --offline`).

Here is a semantic property that the library is supposed to satisfy:

Title: {p['title']}
Statement: {p['statement']}
Quantified over: {p['quantifier']['text']}
Why the existing tests cannot settle it: {p['why_tests_cant']}
Code the property is anchored in: {', '.join(p['anchors']['files'])}

YOUR TASK: produce TWO different, independent, realistic changes ("seeded defects") to the library source under {wt}/src that each BREAK this property while the crate still compiles and the existing test suite still passes exactly as before. Each change should look like a plausible slip in a refactoring, optimisation or bug fix (a few lines), and should need something specific to manifest - a multi-step sequence of operations, an unusual input, a particular composition of the rule list, a particular state/history, or two cooperating sites that each look fine alone - rather than something that ordinary use (or the existing tests) would expose at once. Do not pick a behaviour that is ALREADY broken at the pinned commit: first confirm your demonstration passes on the unmodified tree. The two changes should break the property through different mechanisms / code sites. {EXTRA}

For each change k in {{1,2}} deliver, under {wt}/seed/{pid}-k/ :
  - patch.diff   : `git diff` of the source change only (paths relative to the repo root, applies with `git apply` on the pinned commit; must touch only files under src/)
  - demo.rs      : a self-contained integration test file (to be dropped into {wt}/tests/ as tests/seed_demo.rs, using only the public API of the `adblock` crate with default features, plus `--features` you name in meta.json if really needed) that FAILS with the change applied and PASSES on the unmodified tree
  - meta.json    : {{"property": "{pid}", "summary": "...what was changed...", "needs_to_manifest": "...the specific input / history / list composition / schedule needed...", "commands_run": ["..."], "features": "default or the feature list the demo needs"}}

How to check your work (do all of this yourself, for each change):
  1. On the unmodified tree: copy demo.rs to tests/seed_demo.rs and run `cargo test --offline --test seed_demo` -> must pass.
  2. Apply the change. Run the baseline suite: `cargo test --workspace --no-fail-fast --offline 2>&1 | tail -40`. The baseline has 224 passing tests and exactly 6 known always-failing ones that need network/data files (live::check_live_from_filterlists, live::check_live_specific_urls, live::stable_serialization, live::stable_serialization_through_load, ublock-coverage::check_matching_equivalent, ublock-coverage::check_matching_hostnames). With your change the same 224 must still pass (ignoring your seed_demo test) and nothing else may fail. If an existing test fails, the change is not acceptable: pick another.
  3. With the change applied, `cargo test --offline --test seed_demo` -> must fail.
  4. Save patch.diff (`git diff -- src > seed/{pid}-k/patch.diff`), then revert the source (`git checkout -- src`) and remove tests/seed_demo.rs before starting the next change. Leave the worktree's src/ unmodified at the end; only the seed/ directory should remain as an untracked addition.

Keep build output inside {wt} (default target dir). Be economical: the first build takes a few minutes. When finished, reply with a short report: for each change, the summary, what is needed to manifest it, and the exact outcomes of steps 1-3.""")
