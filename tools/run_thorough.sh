#!/bin/sh
# Runs every check at the thorough tier (used through `vp run --with-repo` so that it works on snapshots).
if [ -n "$VP_RUN_REPO" ]; then sed -i "s#path = \"/repo\"#path = \"$VP_RUN_REPO\"#" harness/Cargo.toml; fi
for c in ${CHECKS:-C01 C02 C03 C04 C05 C06 C07 C08 C09 C10 C11 C12 C13 C14 C15 C16 C17 C18 C19 C20}; do
  s=$(date +%s)
  VERIF_NO_EVIDENCE=1 timeout 5400 bin/check $c --tier thorough > thorough_$c.log 2>&1
  rc=$?
  e=$(date +%s)
  echo "$c rc=$rc wall=$((e-s))s $(grep -c '^VIOLATION' thorough_$c.log) violations; $(grep -E '^\[C[0-9]+\]' thorough_$c.log | cut -c1-160)"
done
